#!/bin/bash
# usage: tools/mutate.sh <prop> <file rel to repo> <python-regex-from> <to>   — runs ./check on a scratch worktree copy
# (self-test helper; scratch lives in /tmp/scratch/repo, never in /repo)
set -e
S=/tmp/scratch/repo
git -C $S checkout -q -- . 
python3 - "$S/$2" "$3" "$4" <<'PY'
import re,sys
p,a,b=sys.argv[1:4]
s=open(p).read()
n=len(re.findall(a,s))
if n==0: print("MUTATION DID NOT APPLY"); sys.exit(3)
s=re.sub(a,b,s,count=1)
open(p,'w').write(s)
PY
cd /verif && VERIF_EVIDENCE_DIR=/tmp/scratch/evidence VERIF_REPLAY_DIR=/tmp/scratch/replay VERIF_REPO=$S ./check $1 2>/dev/null | grep -E "VIOLATION|HOLDS|VIOLATED|UNDECIDED" | cut -c1-260
git -C $S checkout -q -- .
