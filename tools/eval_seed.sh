#!/bin/bash
# tools/eval_seed.sh <patch.diff> <prop> [<prop> ...]: apply a seeded change to /repo, run the quick checks, undo it.
P=$1; shift
cd /verif
git -C /repo apply $P || { echo "patch does not apply"; exit 2; }
for id in "$@"; do
  VERIF_EVIDENCE_DIR=/tmp/scratch/evidence VERIF_REPLAY_DIR=/tmp/scratch/replay ./check $id --tier quick 2>/dev/null | grep -E "VIOLATION|KNOWN|HOLDS|VIOLATED|UNDECIDED" | cut -c1-330
done
git -C /repo checkout -- .
git -C /repo status --short | head -3
