#!/bin/bash
# tools/kani_replay.sh <unit> <harness> [tag]: rebuild the harness crate against the repo under test,
# ask Kani for the counterexample of <harness>, add it as a unit test (concrete playback) and
# execute that test natively on the real code. exit 1 if the failure reproduces.
set -u
UNIT=$1; H=$2; TAG=${3:-default}
HERE=$(cd "$(dirname "$0")/.." && pwd)
cd "$HERE"
export CARGO_NET_OFFLINE=true
python3 - "$UNIT" <<'PY'
import sys, os
sys.path.insert(0, os.getcwd())
from vlib.kani import prepare_crate
prepare_crate(sys.argv[1])
PY
CR="$HERE/.build/kani/$UNIT/crate"
export CARGO_TARGET_DIR="$HERE/.build/kani/$UNIT/target/replay_$TAG"
EXTRA=""
[ -f "$HERE/kani/$UNIT/flags_$TAG" ] && EXTRA=$(cat "$HERE/kani/$UNIT/flags_$TAG")
[ -f "$HERE/kani/$UNIT/rustflags_$TAG" ] && export RUSTFLAGS="$(cat "$HERE/kani/$UNIT/rustflags_$TAG")"
cd "$CR"
cargo kani -Z function-contracts -Z stubbing -Z concrete-playback --concrete-playback=print --harness "$H" --exact --output-format=terse $EXTRA > "$CR/playback.out" 2>&1
grep -E "VERIFICATION:|Failed Checks" "$CR/playback.out" | head -10
python3 - "$CR" "$H" <<'PY'
import re, sys
cr, h = sys.argv[1], sys.argv[2]
out = open(cr + '/playback.out').read()
m = re.search(r'(?s)(#\[test\]\s*fn kani_concrete_playback_.*?\n\})', out)
if not m:
    sys.exit(0)
mod = '::'.join(h.split('::')[:-1])
with open(cr + '/src/lib.rs', 'a') as f:
    f.write('\n#[cfg(kani)]\nmod playback_tests {\n    #[allow(unused_imports)]\n    use super::%s::*;\n%s\n}\n' % (mod or 'proofs', m.group(1)))
print('counterexample:')
print(m.group(1))
PY
if ! grep -q "kani_concrete_playback" src/lib.rs; then
  echo "no counterexample was produced (harness passes on this tree)"; exit 0
fi
echo "---- executing the counterexample natively on the real code ----"
cargo kani playback -Z function-contracts -Z stubbing -Z concrete-playback $EXTRA -- kani_concrete_playback > "$CR/playback_run.out" 2>&1
rc=$?
grep -E "^test |panicked|assertion|^error|test result" "$CR/playback_run.out" | head -20
if grep -q "test result: FAILED" "$CR/playback_run.out"; then
  echo "=> the counterexample FAILS on the real code (violation reproduces)"; exit 1
fi
if [ "$rc" != "0" ]; then echo "=> playback could not be executed (see $CR/playback_run.out)"; exit 2; fi
echo "=> test passed"; exit 0
