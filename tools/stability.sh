#!/bin/bash
# tools/stability.sh <unit> [n]: re-verify the generated unit under n different Z3 seeds (flaky-proof detector)
U=$1; N=${2:-6}
cd /verif && python3 -m vlib.verus $U >/dev/null 2>&1
for s in $(seq 1 $N); do
  verus .build/verus/$U.rs --smt-option smt.random_seed=$s --smt-option sat.random_seed=$s 2>&1 | grep -E "verification results|^error" | sort | uniq -c | tr '\n' ' '; echo " (seed $s)"
done
