#!/usr/bin/env python3
"""Generate /verif/MANIFEST.json from props/*.py metadata (MANIFEST dict in each module)."""
import importlib, json, os, sys
HERE = os.path.dirname(os.path.dirname(os.path.abspath(__file__)))
sys.path.insert(0, HERE)
ids = ['C%02d' % i for i in range(1, 21)]
NA_DEFAULT = {}
checks, na = [], []
import props.meta as meta
for pid in ids:
    m = meta.CHECKS.get(pid)
    if m is None:
        na.append(dict(property_id=pid, reason=meta.NOT_APPLICABLE.get(pid, 'check not built yet in this tree (see DESIGN.md §6 for the plan); not claimed')))
        continue
    c = dict(property_id=pid,
             quick_cmd='./check %s --tier quick' % pid,
             thorough_cmd='./check %s --tier thorough' % pid,
             evidence_file='/verif/evidence/%s.json' % pid,
             replay_cmd_template='./check %s --replay {path}' % pid,
             engine=m['engine'],
             level_claimed=dict(category=m['category'], text=m['text'], design_ref=m.get('design_ref', 'DESIGN.md §6 ' + pid)),
             level_note=m['note'],
             technique=m['technique'])
    checks.append(c)
man = dict(
    version=1,
    setup_cmd='./tools/setup.sh',
    hooks=dict(guard='rustaudio_dasp_verif', enable='RUSTFLAGS="--cfg rustaudio_dasp_verif" (used by the Kani crates graph_nodes, noalloc, osc, sinc, envelope: read-only accessors and constructors Input::verif_new, Phase::verif_from_parts, Sinc::verif_idx / verif_frames, Detector::verif_gains / verif_last_env)',
               baseline_off_cmd='cd /repo && cargo test --workspace --no-fail-fast --offline',
               source_commits=meta.HOOK_COMMITS, add_only=True),
    engines=meta.ENGINES,
    checks=checks,
    notes=meta.NOTES,
    not_applicable=na,
)
json.dump(man, open(os.path.join(HERE, 'MANIFEST.json'), 'w'), indent=1)
print('checks:', [c['property_id'] for c in checks], 'n/a:', [n['property_id'] for n in na])
