#!/bin/sh
# Build everything the checks need from files on disk (offline). Checks rebuild from /repo anyway.
set -e
cd "$(dirname "$0")/.."
export CARGO_NET_OFFLINE=true
mkdir -p .build evidence replay
for d in search/*/; do
  u=$(basename "$d")
  [ -f "$d/Cargo.toml" ] || continue
  cp -f /repo/Cargo.lock "$d/Cargo.lock" 2>/dev/null || true
  CARGO_TARGET_DIR="$PWD/.build/search/$u" cargo build --offline -q --manifest-path "$d/Cargo.toml" 2>/dev/null || true
done
# warm up verus (first invocation is slower)
printf 'use vstd::prelude::*;\nverus!{ proof fn t() ensures 1 + 1 == 2int {} }\nfn main(){}\n' > .build/warm.rs
verus .build/warm.rs >/dev/null 2>&1 || true
echo setup done
