#!/bin/bash
# run every claimed check on /repo (quick tier) and rewrite /verif/evidence
cd /verif
for id in $(python3 -c "import json;print(' '.join(c['property_id'] for c in json.load(open('MANIFEST.json'))['checks']))"); do
  ./check $id --tier quick 2>/dev/null | tail -1
done
tools/validate.py | tail -1
