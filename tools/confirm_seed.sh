#!/bin/bash
# tools/confirm_seed.sh <id> <dir with patch.diff + seed_demo.rs> <crate> [cargo test extra args]
# Confirms a seeded change in a fresh scratch worktree of /repo HEAD: applies, existing suite passes, demo fails with
# the change and passes without it.  Prints a one-line verdict; leaves nothing behind.
ID=$1; SRC=$2; CRATE=$3; EXTRA=${4:-}
W=/tmp/confirm/$ID
rm -rf $W; git -C /repo worktree prune; mkdir -p /tmp/confirm
git -C /repo worktree add -q --detach $W HEAD || exit 2
cd $W
if ! git apply --check $SRC/patch.diff 2>/dev/null; then echo "$ID: PATCH DOES NOT APPLY to /repo HEAD"; git -C /repo worktree remove --force $W; exit 2; fi
git apply $SRC/patch.diff
export CARGO_NET_OFFLINE=true
SUITE=$(cargo test --workspace --no-fail-fast --offline 2>&1 | grep -E "^test result" | awk '{p+=$4; f+=$6} END {print p" passed "f" failed"}')
mkdir -p $CRATE/tests; cp $SRC/seed_demo.rs $CRATE/tests/seed_demo.rs
cargo test -p $CRATE --test seed_demo --offline $EXTRA > /tmp/confirm/$ID.with.log 2>&1; WITH=$?
git apply -R $SRC/patch.diff
cargo test -p $CRATE --test seed_demo --offline $EXTRA > /tmp/confirm/$ID.without.log 2>&1; WITHOUT=$?
echo "$ID: suite with change: $SUITE; demo with change rc=$WITH (want !=0); demo without rc=$WITHOUT (want 0)"
cd /; git -C /repo worktree remove --force $W
