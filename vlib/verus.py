"""Engine V: assemble a Verus unit from a template (/verif/units/<unit>/unit.rs) and items
extracted from /repo on this run, run `verus`, map every diagnostic back to the function /
contract clause it belongs to.

Template directives (each on its own line, starting with //@):

  //@struct file=<repo path> name=<Name>
  //@impl   file=<repo path> header="impl<S> Fixed<S>" [nth=N] [as="replacement header"]
  //@endimpl
  //@item   file=<repo path> in="<container>" kind=<type|const> name=<Name>
  //@fn     file=<repo path> in="<container>" name=<fn> [nth=N] [ret=<name>] [rename=<new>]
            [label=<label>] [rules=R-a,R-b] [body=external]
     //@spec                 lines: requires/ensures/decreases clauses (inserted before the body)
     //@entry                lines inserted right after the opening brace of the body
     //@loop <k> [iter=<id>] lines: invariant/decreases for the k-th loop (textual order)
     //@before <n> "<text>"  lines inserted before the line holding the n-th occurrence of text
     //@after  <n> "<text>"  lines inserted after that line
  //@end
  //@macrofn file=<repo path> macro=<name> arm=<k> bind="A=B;C=D" name=<fn> ...   (fn from a
            macro arm instantiated with the given bindings; same sections as //@fn)

Everything else is copied through (trusted prelude, spec functions, lemmas).
"""
import json
import os
import re
import shlex
import subprocess
import time

from . import extract as X
from .extract import LostAnchor

REPO = os.environ.get('VERIF_REPO', '/repo')
VERIF = os.path.dirname(os.path.dirname(os.path.abspath(__file__)))
BUILD = os.path.join(VERIF, '.build', 'verus')


class Unsupported(Exception):
    pass


def parse_kv(s):
    out = {}
    for tok in shlex.split(s):
        if '=' in tok:
            k, v = tok.split('=', 1)
            out[k] = v
        else:
            out[tok] = True
    return out


# --------------------------------------------------------------------------------------
# rewrite rules (purely local, counted)
# --------------------------------------------------------------------------------------

class Rules:
    def __init__(self):
        self.fired = {}

    def hit(self, rule, n=1):
        if n:
            self.fired[rule] = self.fired.get(rule, 0) + n


def _recv_start(blank, dot):
    """blank[dot] == '.', return start index of the postfix receiver expression before it."""
    i = dot
    while i > 0:
        c = blank[i - 1]
        if c in ')]':
            # match backwards
            depth, p = 0, i - 1
            pair = {')': '(', ']': '['}
            while p >= 0:
                if blank[p] in ')]':
                    depth += 1
                elif blank[p] in '([':
                    depth -= 1
                    if depth == 0:
                        break
                p -= 1
            i = p
        elif c.isalnum() or c == '_' or c == '.':
            i -= 1
        elif c == ':' and i > 1 and blank[i - 2] == ':':
            i -= 2
        else:
            break
    return i


def rule_unchecked(text, rules):
    """R-unchecked: x.get_unchecked(i) -> get_unchecked_(x, i) ; _mut likewise."""
    n = 0
    while True:
        b = X.blank_comments(text)
        m = re.search(r'\.\s*get_unchecked(_mut)?\s*\(', b)
        if not m:
            break
        dot = m.start()
        rs = _recv_start(b, dot)
        recv = text[rs:dot]
        po = m.end() - 1
        pc = X.match_close(b, po)
        arg = text[po + 1:pc]
        fn = 'get_unchecked_mut_' if m.group(1) else 'get_unchecked_'
        text = text[:rs] + '%s(%s, %s)' % (fn, recv.strip(), arg.strip()) + text[pc + 1:]
        n += 1
    rules.hit('R-unchecked', n)
    return text


def sub_outside_comments(pattern, repl, text):
    """regex substitution applied only where the match lies in code (not comments/strings)"""
    b = X.blank_comments(text)
    out, last, n = [], 0, 0
    for m in re.finditer(pattern, b):
        out.append(text[last:m.start()])
        out.append(m.expand(repl) if isinstance(repl, str) else repl(m))
        last = m.end()
        n += 1
    out.append(text[last:])
    return ''.join(out), n


def rule_unsafe_block(text, rules):
    text, n = sub_outside_comments(r'\bunsafe\s*\{', '{', text)
    rules.hit('R-unchecked(unsafe-block)', n)
    return text


def rule_idcast(text, rules):
    text, n = sub_outside_comments(r'\s+as\s+&\s*(mut\s+)?_', '', text)
    rules.hit('R-idcast', n)
    return text


def rule_ptr(text, rules):
    text, n1 = sub_outside_comments(r'\bptr::write\s*\(', 'ptr_write_(', text)
    text, n2 = sub_outside_comments(r'\bptr::read\s*\(', 'ptr_read_(', text)
    rules.hit('R-ptr', n1 + n2)
    return text


def rule_fcompound(text, rules):
    """R-fcompound: `lhs -= rhs;` -> `lhs = lhs - rhs;` (and +=, *=) on single-line statements"""
    def rep(m):
        return '%s%s = %s %s %s;' % (m.group(1), m.group(2), m.group(2).strip(), m.group(3), m.group(4).strip())
    text, n = sub_outside_comments(r'(^[ \t]*)([^\n;=]+?)\s*([-+*/])=\s*([^;\n]+);', rep, text) if False else _fcompound(text)
    rules.hit('R-fcompound', n)
    return text


def _fcompound(text):
    b = X.blank_comments(text)
    out, last, n = [], 0, 0
    for m in re.finditer(r'(?m)^([ \t]*)([^\n;=]+?)[ \t]*([-+*/])=[ \t]*([^;\n=][^;\n]*);', b):
        lhs = text[m.start(2):m.end(2)]
        rhs = text[m.start(4):m.end(4)]
        out.append(text[last:m.start()])
        out.append('%s%s = %s %s (%s);' % (m.group(1), lhs, lhs.strip(), m.group(3), rhs.strip()))
        last = m.end()
        n += 1
    out.append(text[last:])
    return ''.join(out), n


def rule_macroassert(text, rules):
    n = 0
    while True:
        b = X.blank_comments(text)
        m = re.search(r'\bassert_eq!\s*\(', b)
        if not m:
            break
        po = m.end() - 1
        pc = X.match_close(b, po)
        # split args at top-level commas
        args, depth, cur = [], 0, po + 1
        for k in range(po + 1, pc):
            if b[k] in '([{':
                depth += 1
            elif b[k] in ')]}':
                depth -= 1
            elif b[k] == ',' and depth == 0:
                args.append(text[cur:k])
                cur = k + 1
        args.append(text[cur:pc])
        text = text[:m.start()] + 'assert!((%s) == (%s))' % (args[0].strip(), args[1].strip()) + text[pc + 1:]
        n += 1
    rules.hit('R-macroassert', n)
    # assert!(cond, "msg") -> assert!(cond)
    return text


def rule_assert(text, rules):
    """R-assert: assert!(c[, msg..]) -> assert_or_panic_(c)  (returns only if c holds)"""
    n = 0
    pos = 0
    while True:
        b = X.blank_comments(text)
        m = re.search(r'\bassert!\s*\(', b[pos:])
        if not m:
            break
        st = pos + m.start()
        po = pos + m.end() - 1
        pc = X.match_close(b, po)
        depth, cut = 0, pc
        for k in range(po + 1, pc):
            if b[k] in '([{':
                depth += 1
            elif b[k] in ')]}':
                depth -= 1
            elif b[k] == ',' and depth == 0:
                cut = k
                break
        new = 'assert_or_panic_(%s)' % text[po + 1:cut].strip()
        text = text[:st] + new + text[pc + 1:]
        pos = st + len(new)
        n += 1
    rules.hit('R-assert', n)
    return text


def rule_mutself(sig, body, rules):
    """R-mutself: fn f(mut self ...) -> fn f(self ...) { let mut this = self; body[self->this] }"""
    m = re.search(r'\(\s*mut\s+self\b', sig)
    if not m:
        return sig, body
    sig = sig[:m.start()] + '(self' + sig[m.end():]
    inner = body[1:-1]
    inner, _ = sub_outside_comments(r'\bself\b', 'this', inner)
    rules.hit('R-mutself')
    return sig, '{\n        let mut this = self;' + inner + '}'


def rule_assocconst(text, rules, names=('EQUILIBRIUM', 'IDENTITY', 'CHANNELS')):
    n = 0
    for nm in names:
        text, k = sub_outside_comments(r'::' + nm + r'\b(?!\s*\()', '::' + nm + '_()', text)
        n += k
    rules.hit('R-assocconst', n)
    return text


def rule_refmut(body, rules):
    """R-refmut: remove `let T { ref mut a, ref mut b, c } = *self;` and rewrite `*a`/`a` ->
    `self.a` in the rest of the body."""
    b = X.blank_comments(body)
    m = re.search(r'let\s+[A-Za-z_][A-Za-z0-9_]*\s*\{([^}]*)\}\s*=\s*\*self\s*;', b)
    if not m:
        raise LostAnchor('R-refmut: destructuring pattern not found')
    fields = []
    for f in body[m.start(1):m.end(1)].split(','):
        f = f.strip()
        if not f:
            continue
        f = re.sub(r'^(ref\s+)?(mut\s+)?', '', f)
        fields.append(f)
    rest = body[:m.start()] + body[m.end():]
    for f in fields:
        rest, _ = sub_outside_comments(r'(?<!\w)(?<![^.]\.)\*\s*' + f + r'\b', 'self.' + f, rest)
        rest, _ = sub_outside_comments(r'(?<!\w)(?<![^.]\.)' + f + r'\b(?!\s*:)', 'self.' + f, rest)
    rules.hit('R-refmut')
    return rest


# --------------------------------------------------------------------------------------
# assembling
# --------------------------------------------------------------------------------------

class Unit:
    def __init__(self, name, template_path=None, repo=REPO):
        self.name = name
        self.repo = repo
        self.tpath = template_path or os.path.join(VERIF, 'units', name, 'unit.rs')
        self.lines = []        # (text, origin)
        self.rules = Rules()
        self.items = []        # {'label','file','digest','kind'}
        self.fn_labels = {}    # label -> dict(start_line, end_line, spec_lines, ...)
        self.external_labels = []
        self.mustfail_labels = []
        self._src = {}

    def src(self, rel):
        if rel not in self._src:
            p = os.path.join(self.repo, rel)
            if not os.path.exists(p):
                raise LostAnchor('file missing: ' + rel)
            self._src[rel] = X.Source(p)
        return self._src[rel]

    def source_for(self, kv):
        """Source of an item: a repo file, or (macro=..., arm=..., bind=...) a macro arm of that file
        instantiated textually with the given bindings (what rustc does for non-recursive arms)."""
        if 'macro' not in kv:
            return self.src(kv['file'])
        key = (kv['file'], kv['macro'], kv.get('arm', '0'), kv['bind'])
        if key not in self._src:
            s = self.src(kv['file'])
            arms = X.macro_arms(s, kv['macro'])
            arm = arms[int(kv.get('arm', 0))]
            binding = dict(p.split('=', 1) for p in kv['bind'].split(';') if p)
            body = X.instantiate(arm[1], binding)
            self._src[key] = X.Source('<macro %s!(%s)>' % (kv['macro'], kv['bind']), body)
            self.rules.hit('R-macro')
        return self._src[key]

    def emit(self, text, origin):
        for ln in text.split('\n'):
            self.lines.append((ln, origin))

    # ---- helpers ---------------------------------------------------------------------
    def strip_attrs(self, text):
        """R-attr: delete attributes, doc comments, `pub` (outside fn bodies)."""
        text, n1 = sub_outside_comments(r'#\[[^\]]*\]\s*', '', text)
        text, n2 = sub_outside_comments(r'\bpub(\s*\([^)]*\))?\s+', '', text)
        text = re.sub(r'(?m)^\s*///.*\n', '', text)
        self.rules.hit('R-attr', n1 + n2)
        return text

    def do_struct(self, kv):
        s = self.source_for(kv)
        st, en = s.find_block('struct', kv['name'])
        text = s.text[st:en]
        self.items.append(dict(label='struct ' + kv['name'], file=kv['file'], digest=X.digest(text)))
        text = self.strip_attrs(text)
        vis = kv.get('vis', 'pub')
        if vis == 'pub':
            # make struct and fields pub so open specs may mention them (unit is a single crate)
            text = re.sub(r'^struct', 'pub struct', text)
            b = X.blank_comments(text)
            mt = re.match(r'^(pub struct\s+\w+\s*(?:<[^>]*>)?\s*)\((.*)\)\s*;\s*$', text.strip(), re.S)
            if mt and '{' not in b:
                fields = [f.strip() for f in mt.group(2).split(',') if f.strip()]
                text = mt.group(1) + '(' + ', '.join('pub ' + f for f in fields) + ');'
                b = X.blank_comments(text)
            if '{' in b:
                bo = b.index('{')
                bc = X.match_close(b, bo)
                inner = text[bo + 1:bc]
                inner = re.sub(r'(?m)^(\s*)([A-Za-z_][A-Za-z0-9_]*\s*:)', r'\1pub \2', inner)
                text = text[:bo + 1] + inner + text[bc:]
        self.emit(text, dict(kind='repo', label='struct ' + kv['name']))

    def do_impl(self, kv):
        s = self.source_for(kv)
        if kv.get('has'):
            # several impl blocks share this header: take the first one that defines `fn <has>`
            found = None
            for occ in range(0, 8):
                try:
                    st, bo, en = s.find_impl(kv['header'], occ)
                except LostAnchor:
                    break
                if re.search(r'\bfn\s+' + re.escape(kv['has']) + r'\b', s.blank[bo:en]):
                    found = (st, bo, en)
                    break
            if not found:
                raise LostAnchor('impl %r holding fn %s not found' % (kv['header'], kv['has']))
            st, bo, en = found
        else:
            st, bo, en = s.find_impl(kv['header'], int(kv.get('nth', 0)))
        head = s.text[st:bo]
        self.items.append(dict(label='impl-header ' + X.norm(kv['header']), file=kv['file'], digest=X.digest(X.norm(head))))
        if 'as' in kv:
            # replace the part before `where`
            parts = re.split(r'\bwhere\b', head, 1)
            head = kv['as'] + ('\nwhere' + parts[1] if len(parts) > 1 else ' ')
            self.rules.hit('R-inherent')
        if 'addwhere' in kv:
            if re.search(r'\bwhere\b', head):
                head = head.rstrip()
                if not head.endswith(','):
                    head += ','
                head += '\n    ' + kv['addwhere'] + ',\n'
            else:
                head += '\nwhere ' + kv['addwhere'] + ',\n'
        self.emit(head + '{', dict(kind='repo', label='impl ' + kv['header']))

    def do_item(self, kv):
        s = self.source_for(kv)
        lo, hi = s.container_range(kv.get('in', ''))
        kw = kv['kind']
        m = re.search(r'\b' + kw + r'\s+' + re.escape(kv['name']) + r'\b', s.blank[lo:hi])
        if not m:
            raise LostAnchor('%s %s not found in %s' % (kw, kv['name'], kv.get('in', '')))
        st = lo + m.start()
        en = s._item_end(st)
        text = s.text[st:en]
        self.items.append(dict(label='%s %s in %s' % (kw, kv['name'], kv.get('in', '')), file=kv['file'], digest=X.digest(text)))
        self.emit('    ' + text, dict(kind='repo', label=kv['name']))

    def get_fn_text(self, kv):
        s = self.source_for(kv)
        top = kv.get('in', '') == 'top'
        anchor = '' if top else kv.get('in', '')
        # several impl blocks may share one header (e.g. a cfg-guarded hook impl): take the first that holds the fn
        last_err = None
        for occ in range(0, 6):
            a_ = anchor
            if occ and anchor and '#' not in anchor.split('>>')[-1]:
                a_ = anchor + '#%d' % occ
            elif occ:
                break
            try:
                lo, hi = s.container_range(a_)
                a, k, e = s.find_fn(kv['name'], lo, hi, int(kv.get('nth', 0)), top_only=top)
                return s.text[k:e], s.text[a:k]
            except LostAnchor as ex:
                last_err = ex
                continue
        raise last_err

    def do_fn(self, kv, sections, vacuity=False):
        label = kv.get('label') or ((kv.get('in', '') + '::' if kv.get('in') else '') + kv['name'])
        try:
            text, prefix = self.get_fn_text(kv)
        except LostAnchor as ex:
            # the function itself is gone (removed / renamed / moved): the caller runs its paired search before giving up
            ex.missing_label = label
            raise
        self.items.append(dict(label='fn ' + label, file=kv['file'], digest=X.digest(text)))
        self.rules.hit('R-attr', len(re.findall(r'#\[|\bpub\b', X.blank_comments(prefix))))
        rules = set(filter(None, re.split(r',(?=R-)', kv.get('rules', ''))))
        # always-on local rules
        text = rule_unchecked(text, self.rules)
        text = rule_unsafe_block(text, self.rules)
        text = rule_idcast(text, self.rules)
        text = rule_ptr(text, self.rules)
        # always on in units over float_as_real: the installed Verus PANICS (mk_range f64) on a compound assignment to an f64
        # place, and a changed body may introduce one anywhere
        if 'R-fcompound' in rules or getattr(self, 'float_unit', False):
            text = rule_fcompound(text, self.rules)
        if 'R-macroassert' in rules:
            text = rule_macroassert(text, self.rules)
        if 'R-assert' in rules:
            text = rule_assert(text, self.rules)
        text = rule_assocconst(text, self.rules)
        for r in rules:
            if r.startswith('R-subst:'):
                # documented literal substitution  R-subst:from=>to  (used for path renames only)
                a, b_ = r[8:].split('=>')
                # runs of whitespace in the anchor match any whitespace (multi-line statements)
                pat = r'\s+'.join(re.escape(tok) for tok in a.split())
                text, n = sub_outside_comments(pat, b_.replace('\\', '\\\\'), text)
                if n == 0:
                    if label in getattr(self, 'force_external', ()) or vacuity:
                        continue    # body is dropped anyway (function left unverified / vacuity probe)
                    ex = LostAnchor('R-subst anchor %r not found in %s' % (a, label))
                    ex.label = label
                    raise ex
                self.rules.hit('R-subst', n)
        ft = X.FnText(text)
        sig = ft.signature()
        body = ft.body() if ft.has_body else None
        if 'R-refcell' in rules and body is not None:
            # R-refcell: `let [mut] fork = self.shared_fork.borrow[_mut]();` is removed; `fork` becomes a
            # parameter of the (hand-stated) signature given by sig=... (RefCell/Rc plumbing is not verified)
            body2, n = sub_outside_comments(r'let\s+(mut\s+)?fork\s*=\s*self\s*\.\s*shared_fork\s*\.\s*borrow(_mut)?\s*\(\s*\)\s*;', '', body)
            if n != 1:
                raise LostAnchor('R-refcell: borrow statement not found exactly once in %s' % label)
            body = body2
            self.rules.hit('R-refcell')
        if kv.get('sig'):
            sig = kv['sig'] + '\n'
        if 'R-mutself' in rules and body is not None:
            sig, body = rule_mutself(sig, body, self.rules)
        if 'R-refmut' in rules and body is not None:
            body = rule_refmut(body, self.rules)
        # name the return value
        if kv.get('ret'):
            ft2 = X.FnText(sig + '{}')
            if ft2.ret is None:
                raise LostAnchor('fn %s has no return type to name' % label)
            rs, re_ = ft2.ret
            rtype = sig[rs:re_].rstrip()
            tail = sig[re_:]
            sig = sig[:rs] + '(%s: %s)' % (kv['ret'], rtype) + ('\n' if tail.strip() else ' ') + tail
        if kv.get('rename'):
            sig = re.sub(r'\bfn\s+' + re.escape(kv['name']) + r'\b', 'fn ' + kv['rename'], sig, 1)
        if kv.get('vis'):
            sig = kv['vis'] + ' ' + sig
        org = dict(kind='repo', label=label, section='sig')
        start = len(self.lines)
        if kv.get('attr'):
            self.emit('    ' + kv['attr'], dict(kind='tmpl', label=label, section='attr'))
        if kv.get('body') == 'external' and body is not None:
            self.emit('    #[verifier::external_body]', dict(kind='tmpl', label=label, section='external'))
        forced = label in getattr(self, 'force_external', ()) and body is not None and not vacuity and kv.get('body') != 'external'
        if forced:
            # the body is dropped: binding modes of by-value parameters are irrelevant (the installed Verus rejects `mut self`)
            sig = re.sub(r'\(\s*mut\s+self\b', '(self', sig)
            self.emit('    #[verifier::external_body]', dict(kind='tmpl', label=label, section='forced-external'))
        self.emit('    ' + sig.rstrip(), org)
        spec = sections.get('spec')
        if spec:
            for ln in spec:
                self.emit(ln, dict(kind='tmpl', label=label, section='spec'))
        if vacuity and body is not None and kv.get('body') != 'external':
            vorg = dict(kind='tmpl', label=label, section='vacuity')
            self.emit('    { proof { assert(false); } vstd::pervasive::unreached() }', vorg)
            self.fn_labels[label] = dict(start=start, end=len(self.lines))
            return
        if forced:
            self.emit('    { unimplemented!() }', dict(kind='tmpl', label=label, section='forced-external'))
            self.fn_labels[label] = dict(start=start, end=len(self.lines))
            return
        if body is None or kv.get('body') == 'external':
            if body is None:
                self.emit('    ;', org)
            else:
                self.emit('    { unimplemented!() }', dict(kind='tmpl', label=label, section='external'))
                self.external_labels.append(label)
            if body is None or not vacuity:
                pass
            if kv.get('body') != 'external':
                self.fn_labels[label] = dict(start=start, end=len(self.lines))
            return
        try:
            body = self.inject(body, sections, label)
        except LostAnchor as ex:
            # the function is still there but a body anchor (loop / hint / closure / arm / tail) is gone: the caller may
            # leave this function unverified (forced-external) and run its paired search
            ex.label = label
            raise
        for (ln, o) in body:
            self.lines.append((ln, o))
        self.fn_labels[label] = dict(start=start, end=len(self.lines))

    def inject(self, body, sections, label):
        """body: text starting with '{' ending with '}'. Returns list of (line, origin)."""
        bb = X.blank_comments(body)
        inserts = []   # (offset, lines, section)
        # closure headers: annotate in place (|x| -> |x: T| -> (r: U) requires .. ensures ..)
        for key in [k for k in sections if isinstance(k, tuple) and k[0] == 'closure']:
            _, nth, anchor = key
            pos, start = -1, 0
            for _i in range(nth + 1):
                pos = bb.find(anchor, start)
                if pos < 0:
                    raise LostAnchor('fn %s: closure header %r (#%d) not found' % (label, anchor, nth))
                start = pos + 1
            new_header = '\n'.join(sections[key])
            # R-closurebrace: an annotated closure needs a block body; a bare expression body `|x| E` is wrapped as `|x| { E }`
            # (E ends at the first `,` or closing bracket at nesting depth 0)
            after = pos + len(anchor)
            k = after
            while k < len(bb) and bb[k] in ' \t\n':
                k += 1
            if k < len(bb) and bb[k] != '{':
                depth, e = 0, k
                while e < len(bb):
                    c = bb[e]
                    if c in '([{':
                        depth += 1
                    elif c in ')]}':
                        if depth == 0:
                            break
                        depth -= 1
                    elif c == ',' and depth == 0:
                        break
                    e += 1
                body = body[:k] + '{ ' + body[k:e].rstrip() + ' }' + body[e:]
                self.rules.hit('R-closurebrace')
            body = body[:pos] + new_header + body[after:]
            bb = X.blank_comments(body)
            self.rules.hit('closure-annotation')
        # entry
        if sections.get('entry'):
            inserts.append((1, sections['entry'], 'entry'))
        if sections.get('tail'):
            # wrap the tail expression:  { stmts; E }  ->  { stmts; let tail_ = E; <lines> tail_ }
            depth, last = 0, 0
            for k in range(1, len(bb) - 1):
                c = bb[k]
                if c in '([{':
                    depth += 1
                elif c in ')]}':
                    depth -= 1
                    if depth == 0 and c == '}':
                        # a block statement (if/match/loop without trailing ;) ends here only if followed by more code
                        pass
                elif c == ';' and depth == 0:
                    last = k
            ts = last + 1 if last else 1
            if not bb[ts:len(bb) - 1].strip():
                raise LostAnchor('fn %s: no tail expression to wrap' % label)
            inserts.append((ts, ['', '        let tail_ = {'], 'tailopen'))
            inserts.append((len(body) - 1, ['};'] + sections['tail'] + ['        tail_', ''], 'tail'))
        loops = X.find_loops(bb)
        for key, lines in sections.items():
            if isinstance(key, tuple) and key[0] == 'loop':
                k = key[1]
                if k >= len(loops):
                    raise LostAnchor('fn %s: loop #%d not found (has %d)' % (label, k, len(loops)))
                kw, bo = loops[k]
                inserts.append((bo, ['\n'] + lines, 'loop%d' % k))
                if key[2]:
                    # for PAT in EXPR  ->  for PAT in <iter>: EXPR
                    m = re.match(r'for\b(.*?)\bin\b', bb[kw:bo], re.S)
                    if not m:
                        raise LostAnchor('fn %s: loop #%d is not a for loop' % (label, k))
                    inserts.append((kw + m.end(), [' %s: ' % key[2]], 'loopiter'))
                    if len(key) > 3 and key[3]:
                        # R-looppat: `for _ in` -> `for <var> in` (naming an ignored binding)
                        pm = re.match(r'for\s+(_)\s+in\b', bb[kw:bo])
                        if not pm:
                            raise LostAnchor('fn %s: loop #%d pattern is not `_`' % (label, k))
                        inserts.append((kw + pm.start(1), [key[3]], 'loopiter'))
                        self.rules.hit('R-looppat')
            elif isinstance(key, tuple) and key[0] == 'arm':
                # match arm  `PAT => EXPR,`  ->  `PAT => { <lines> EXPR },`   (single-line arms only)
                _, nth, anchor = key
                pos, start = -1, 0
                for _i in range(nth + 1):
                    pos = bb.find(anchor, start)
                    if pos < 0:
                        raise LostAnchor('fn %s: arm anchor %r (#%d) not found' % (label, anchor, nth))
                    start = pos + 1
                ls = body.rfind('\n', 0, pos) + 1
                le = body.find('\n', pos)
                line_b = bb[ls:le]
                m2 = re.match(r'^(\s*.*?=>\s*)(.*?)(,?)\s*$', line_b)
                if not m2 or '{' in m2.group(2):
                    raise LostAnchor('fn %s: arm %r is not a single-line `PAT => EXPR,`' % (label, anchor))
                inserts.append((ls + m2.end(1), ['{'] + lines + [''], 'hint'))
                inserts.append((ls + m2.end(2), [' }'], 'loopiter'))
            elif isinstance(key, tuple) and key[0] in ('before', 'after'):
                _, nth, anchor = key
                pos, cnt = -1, -1
                start = 0
                while cnt < nth:
                    pos = bb.find(anchor, start)
                    if pos < 0:
                        # try whitespace-normalised search
                        raise LostAnchor('fn %s: anchor %r (#%d) not found' % (label, anchor, nth))
                    cnt += 1
                    start = pos + 1
                if key[0] == 'before':
                    ls = body.rfind('\n', 0, pos) + 1
                    inserts.append((ls, lines + [''], 'hint'))
                else:
                    le = body.find('\n', pos)
                    inserts.append((le + 1, lines + [''], 'hint'))
        # apply inserts from the end
        pieces = []
        inserts.sort(key=lambda t: t[0])
        last = 0
        out = []
        for off, lines, sec in inserts:
            out.append((body[last:off], dict(kind='repo', label=label, section='body')))
            if sec == 'loopiter':
                out.append((lines[0], dict(kind='tmpl', label=label, section=sec)))
            else:
                out.append(('\n'.join(lines), dict(kind='tmpl', label=label, section=sec)))
            last = off
        out.append((body[last:], dict(kind='repo', label=label, section='body')))
        # flatten into lines: we must keep text contiguous; build with markers
        res = []
        cur_line = ''
        cur_org = None
        for text, org in out:
            parts = text.split('\n')
            for idx, p in enumerate(parts):
                if idx > 0:
                    res.append((cur_line, cur_org or org))
                    cur_line, cur_org = '', None
                if p:
                    cur_line += p
                    # template origin wins for a mixed line only if the line has no repo text
                    if cur_org is None or (org['kind'] == 'repo' and p.strip()):
                        cur_org = org
        res.append((cur_line, cur_org or dict(kind='repo', label=label, section='body')))
        return res

    # ---- main ------------------------------------------------------------------------
    def assemble(self, vacuity=False, force_external=()):
        self.force_external = set(force_external)
        self.lines = []
        self.items = []
        self.external_labels = []
        self.mustfail_labels = []
        self._mustfail = None
        self.rules = Rules()
        with open(self.tpath) as f:
            tl = f.read().split('\n')
        # //@include <path relative to /verif/units> [external]
        expanded = []
        for ln in tl:
            st = ln.strip()
            if st.startswith('//@include ') and 'float_as_real' in st:
                self.float_unit = True
            if st.startswith('//@include '):
                parts = st.split()
                ipath = os.path.join(VERIF, 'units', parts[1])
                ext = 'external' in parts[2:]
                with open(ipath) as f:
                    for il in f.read().split('\n'):
                        if ext and (il.strip().startswith('//@fn ') or il.strip().startswith('//@macrofn ')):
                            il = il + ' body=external'
                        expanded.append(il)
            else:
                expanded.append(ln)
        tl = expanded
        i = 0
        T = dict(kind='tmpl', label=None, section='prelude')
        while i < len(tl):
            ln = tl[i]
            s = ln.strip()
            if s.startswith('//@struct '):
                self.do_struct(parse_kv(s[10:]))
            elif s.startswith('//@impl '):
                self.do_impl(parse_kv(s[8:]))
            elif s == '//@endimpl':
                self.emit('}', dict(kind='repo', label='endimpl'))
            elif s.startswith('//@item '):
                self.do_item(parse_kv(s[8:]))
            elif s.startswith('//@fn ') or s.startswith('//@macrofn '):
                kv = parse_kv(s.split(' ', 1)[1])
                sections = {}
                cur = None
                i += 1
                while i < len(tl) and tl[i].strip() != '//@end':
                    t = tl[i].strip()
                    if t.startswith('//@spec'):
                        cur = 'spec'
                        sections[cur] = []
                    elif t.startswith('//@entry'):
                        cur = 'entry'
                        sections[cur] = []
                    elif t.startswith('//@closure '):
                        m = re.match(r'//@closure\s+(\d+)\s+"(\|.*\|)"\s*$', t)
                        if not m:
                            raise Unsupported('bad directive: ' + t)
                        cur = ('closure', int(m.group(1)), m.group(2))
                        sections[cur] = []
                    elif t.startswith('//@tail'):
                        cur = 'tail'
                        sections[cur] = []
                    elif t.startswith('//@loop '):
                        a = parse_kv(t[8:])
                        k = [x for x in a if x.isdigit()]
                        cur = ('loop', int(k[0]), a.get('iter'), a.get('var'))
                        sections[cur] = []
                    elif t.startswith('//@before ') or t.startswith('//@after ') or t.startswith('//@arm '):
                        m = re.match(r'//@(before|after|arm)\s+(\d+)\s+"(.*)"\s*$', t)
                        if not m:
                            raise Unsupported('bad directive: ' + t)
                        cur = (m.group(1), int(m.group(2)), m.group(3))
                        sections[cur] = []
                    elif t.startswith('//@'):
                        raise Unsupported('unknown directive in fn block: ' + t)
                    else:
                        if cur is None:
                            if t:
                                raise Unsupported('text outside a section in fn block: ' + t)
                        else:
                            sections[cur].append(tl[i])
                    i += 1
                if i >= len(tl):
                    raise Unsupported('unterminated //@fn block')
                self.do_fn(kv, sections, vacuity=vacuity)
            elif s.startswith('//@'):
                raise Unsupported('unknown directive: ' + s)
            else:
                mm = re.match(r'\s*(?:pub\s+)?proof fn (mustfail_\w+)', ln)
                if mm:
                    self._mustfail = mm.group(1)
                    self.mustfail_labels.append(mm.group(1))
                if getattr(self, '_mustfail', None):
                    self.lines.append((ln, dict(kind='tmpl', label='mustfail:' + self._mustfail, section='vacuity-probe')))
                    if ln.rstrip() == '}' or (mm and ln.rstrip().endswith('}')):
                        self._mustfail = None
                else:
                    self.lines.append((ln, T))
            i += 1
        return '\n'.join(l for l, _ in self.lines) + '\n'


# --------------------------------------------------------------------------------------
# running
# --------------------------------------------------------------------------------------

A_KINDS = ('invariant not satisfied', 'decreases not satisfied', 'loop invariant', 'could not prove termination',
           'assertion failed', 'assert failed')


def run_verus(path, timeout=900, extra=()):
    t0 = time.time()
    cmd = ['verus', path, '--output-json', '--time', '--error-format=json', '--num-threads', '8'] + list(extra)
    try:
        p = subprocess.run(cmd, capture_output=True, text=True, timeout=timeout, cwd=os.path.dirname(path))
    except subprocess.TimeoutExpired:
        return dict(timeout=True, wall=time.time() - t0, cmd=' '.join(cmd))
    diags = []
    for ln in p.stderr.split('\n'):
        ln = ln.strip()
        if ln.startswith('{') and '"$message_type"' in ln:
            try:
                d = json.loads(ln)
            except Exception:
                continue
            diags.append(d)
    js = None
    try:
        start = p.stdout.index('{')
        js = json.loads(p.stdout[start:])
    except Exception:
        js = None
    return dict(timeout=False, rc=p.returncode, diags=diags, json=js, stderr=p.stderr, stdout=p.stdout,
                wall=time.time() - t0, cmd=' '.join(cmd))


def classify(unit, res):
    """Map diagnostics to obligations. Returns dict(errors=[...], compile_errors=[...])."""
    errors, compile_errors, notes = [], [], []
    vr = ((res.get('json') or {}).get('verification-results') or {})
    verification_ran = (not vr.get('encountered-vir-error', True)) and ('verified' in vr) and (vr.get('verified', 0) + vr.get('errors', 0) > 0)
    for d in res['diags']:
        if d.get('level') != 'error':
            continue
        msg = d.get('message', '')
        if msg.startswith('aborting due to'):
            continue
        spans = d.get('spans', [])
        prim = [s for s in spans if s.get('is_primary')]
        sec = [s for s in spans if not s.get('is_primary')]

        def org(span):
            fname = span.get('file_name') or ''
            if fname and not os.path.basename(fname).startswith(unit.name):
                # a span in vstd / std_specs (e.g. the `requires` of a float operator): not a line of the unit
                return dict(kind='ext', label=None), '%s:%s' % (fname, span.get('line_start'))
            ln = span['line_start'] - 1
            if 0 <= ln < len(unit.lines):
                return unit.lines[ln][1], unit.lines[ln][0]
            return dict(kind='?', label=None), ''
        is_verif = any(k in msg for k in (
            'postcondition not satisfied', 'precondition not satisfied', 'invariant not satisfied',
            'assertion failed', 'possible arithmetic', 'possible division', 'decreases not satisfied',
            'index out of bounds', 'possible bit shift', 'unreachable', 'recommendation not met',
            'could not prove', 'panic', 'might fail', 'may fail', 'underflow', 'overflow', 'resource limit', 'rlimit'))
        if d.get('code'):
            is_verif = False        # rustc error codes (E0425, ...) are never proof obligations
        if not is_verif and verification_ran and d.get('code') is None:
            # Verus reached the SMT stage (no rustc / VIR error): every remaining error is a failed obligation
            is_verif = True
        if not is_verif:
            ce = dict(message=msg, rendered=d.get('rendered', ''), spans=[])
            for sp in spans:
                o, _t = org(sp)
                if o.get('kind') == 'repo' and o.get('label') and o.get('section') in ('body', 'sig'):
                    ce['spans'].append(dict(label=o['label']))
            compile_errors.append(ce)
            continue
        e = dict(message=msg, rendered=d.get('rendered', ''), spans=[])
        for s in spans:
            o, text = org(s)
            e['spans'].append(dict(line=s['line_start'], label=s.get('label'), primary=s.get('is_primary'),
                                   origin=o, text=text.strip()))
        # which function does it belong to? the span lying in repo body/sig or spec of a label
        fn = None
        for s in e['spans']:
            if s['origin'].get('section') == 'vacuity-probe':
                fn = s['origin'].get('label')
                break
        for s in (e['spans'] if fn is None else []):
            if s['origin'].get('label') and s['origin'].get('section') not in (None, 'prelude'):
                # prefer the span that is in the function body (call site), else spec
                if fn is None or s['origin'].get('section') == 'body':
                    fn = s['origin'].get('label')
        e['fn'] = fn
        # classification
        kind = 'P'
        if 'resource limit' in msg or 'rlimit' in msg:
            kind = 'R'
        elif any(k in msg for k in A_KINDS):
            kind = 'A'
        else:
            # precondition failure whose call site is in template text (hint/lemma) is scaffolding
            if 'precondition not satisfied' in msg or 'possible arithmetic' in msg:
                site = [s for s in e['spans'] if s['primary']] or e['spans']
                if site and all(s['origin'].get('kind') == 'tmpl' for s in site):
                    kind = 'A'
            if 'postcondition not satisfied' in msg:
                # postcondition of a template-only function (lemma) is scaffolding
                if fn is None:
                    kind = 'A'
        e['kind'] = kind
        # obligation name
        clause = ''
        for s in e['spans']:
            if s['label'] and ('failed' in s['label']):
                clause = s['text']
                if s['origin'].get('kind') == 'ext':
                    # the failed clause lies in vstd: name the call site in the unit and where the clause is
                    site = [t['text'] for t in e['spans'] if t['primary'] and t['origin'].get('kind') != 'ext']
                    clause = '%s -- requires at %s' % (site[0] if site else '?', s['text'])
        e['obligation'] = '%s: %s%s' % (fn or '<lemma/prelude>', msg, (' [' + clause + ']') if clause else '')
        errors.append(e)
    return dict(errors=errors, compile_errors=compile_errors)


def function_results(res):
    """{function name -> success} from --output-json --time"""
    out = {}
    js = res.get('json') or {}
    try:
        for mod in js['times-ms']['smt']['smt-run-module-times']:
            for f in mod.get('function-breakdown', []):
                out[f['function']] = dict(success=f['success'], time_us=f.get('time-micros', 0), rlimit=f.get('rlimit', 0))
    except Exception:
        pass
    return out


ASSUME_RE = re.compile(r'\b(assume\s*\(|admit\s*\(|external_body|assume_specification|axiom\s+fn|external_trait_specification|external_type_specification|exec_allows_no_decreases_clause|#\[verifier::external\b|accept_recursive_types|reject_recursive_types)')


def scan_assumptions(text):
    """mechanical scan of the generated unit text for trusted constructs"""
    found = []
    lines = text.split('\n')
    for i, ln in enumerate(lines):
        code = ln.split('//')[0]
        for m in ASSUME_RE.finditer(code):
            # describe with the next non-attribute line (the item it applies to)
            desc = code.strip()
            if 'external_body' in m.group(0) or 'external' in m.group(0):
                j = i + 1
                while j < len(lines) and (lines[j].strip().startswith('#[') or not lines[j].strip()):
                    j += 1
                if j < len(lines):
                    desc = m.group(0) + ' ' + lines[j].strip()
            found.append(X.norm(desc)[:160])
    # dedupe keep order
    seen, out = set(), []
    for f in found:
        if f not in seen:
            seen.add(f)
            out.append(f)
    return out


def main():
    import sys
    name = sys.argv[1]
    u = Unit(name)
    vac = '--vacuity' in sys.argv
    text = u.assemble(vacuity=vac)
    os.makedirs(BUILD, exist_ok=True)
    path = os.path.join(BUILD, name + ('_vac' if vac else '') + '.rs')
    with open(path, 'w') as f:
        f.write(text)
    res = run_verus(path)
    if res.get('timeout'):
        print('TIMEOUT')
        return
    cl = classify(u, res)
    for e in cl['compile_errors']:
        print('COMPILE:', e['rendered'])
    for e in cl['errors']:
        print('[%s] %s' % (e['kind'], e['obligation']))
        print(e['rendered'])
    js = res['json']
    print(js['verification-results'] if js else res['stderr'][-3000:])
    print('rules', u.rules.fired, 'wall %.1f' % res['wall'])


if __name__ == '__main__':
    main()
