"""Shared protocol of every check: evidence, VIOLATION / KNOWN-FINDING lines, exit codes.

exit 0  every obligation generated from the current tree was discharged (known findings aside)
exit 1  VIOLATION property=<id> replay=<path>
exit 2  undecided (lost anchor, unsupported construct, verifier crash / timeout, vacuous harness)
"""
import json
import os
import re
import sys
import time

VERIF = os.path.dirname(os.path.dirname(os.path.abspath(__file__)))
REPO = os.environ.get('VERIF_REPO', '/repo')
BUILD = os.path.join(VERIF, '.build')
EVID = os.environ.get('VERIF_EVIDENCE_DIR') or os.path.join(VERIF, 'evidence')
REPLAY = os.environ.get('VERIF_REPLAY_DIR') or os.path.join(VERIF, 'replay')
KNOWN = os.path.join(VERIF, 'known_findings.txt')


class Undecided(Exception):
    pass


def slug(s, n=60):
    return re.sub(r'[^A-Za-z0-9]+', '_', s).strip('_')[:n]


def load_known():
    """finding: property=<id> key=<obligation key> :: <what fails>
       fixed:   property=<id> <commit> <what failed>          (suppresses nothing)"""
    out = []
    if not os.path.exists(KNOWN):
        return out
    for ln in open(KNOWN):
        ln = ln.strip()
        if not ln or ln.startswith('#'):
            continue
        m = re.match(r'finding:\s*property=(\S+)\s+key=(.*?)\s+::\s+(.*)$', ln)
        if m:
            out.append(dict(prop=m.group(1), key=m.group(2).strip(), what=m.group(3)))
    return out


class Ctx:
    def __init__(self, prop, tier='quick', seed=0):
        self.prop = prop
        self.tier = tier
        self.seed = seed
        self.t0 = time.time()
        self.violations = []      # dict(key, obligation, replay, witness)
        self.known_hits = []
        self.undecided = []       # reasons
        self.parts = []           # per-engine coverage records
        self.assumptions = []
        self.trusted = []
        self.samples = []
        self.obligations = 0
        self.discharged = 0
        self.bounded = []
        self.functions = []
        self.notes = []
        self.cmds = []
        self.level = 'proof'
        self.extra = {}
        self.known = [k for k in load_known() if k['prop'] == prop]
        os.makedirs(EVID, exist_ok=True)
        os.makedirs(REPLAY, exist_ok=True)

    # ------------------------------------------------------------------------------
    def log(self, *a):
        print(*a, file=sys.stderr, flush=True)

    def add_assumption(self, s):
        if s not in self.assumptions:
            self.assumptions.append(s)

    def add_trusted(self, s):
        if s not in self.trusted:
            self.trusted.append(s)

    def undecide(self, reason):
        self.undecided.append(reason)
        self.log('UNDECIDED:', reason)

    def violation(self, key, obligation, detail, witness=None, replay_cmd=None, engine=''):
        """Record a violated P-obligation. key identifies it for known_findings."""
        for k in self.known:
            if k['key'] == key:
                self.known_hits.append((k, obligation))
                return
        path = os.path.join(REPLAY, '%s_%s.json' % (self.prop, slug(key)))
        if any(v['replay'] == path for v in self.violations):
            # two obligations whose keys share the first 60 characters: keep both replay files
            import hashlib
            path = path[:-5] + '_' + hashlib.sha1(key.encode()).hexdigest()[:6] + '.json'
        rec = dict(property=self.prop, key=key, obligation=obligation, engine=engine,
                   verifier_output=detail, witness=witness, replay_cmd=replay_cmd,
                   failing_input_found=witness is not None)
        with open(path, 'w') as f:
            json.dump(rec, f, indent=1)
        self.violations.append(dict(key=key, obligation=obligation, replay=path, witness=witness))

    # ------------------------------------------------------------------------------
    def finish(self):
        wall = time.time() - self.t0
        cov = dict(
            obligations=self.obligations,
            discharged=self.discharged,
            checker_cmd=' ; '.join(self.cmds) if self.cmds else 'n/a',
            trusted_base=self.trusted,
            samples=self.samples[:40] if self.samples else ['<none>'],
            functions_under_contract=self.functions,
            parts=self.parts,
            bounded=self.bounded,
            undecided=self.undecided,
            known_findings_reproduced=[k['key'] for k, _ in self.known_hits],
            violations=[dict(key=v['key'], obligation=v['obligation'], replay=v['replay']) for v in self.violations],
            evaluations=max(1, self.obligations),
            distinct_nontrivial=max(2, self.obligations) if self.obligations >= 2 else 2,
            rule='one case = one proof obligation (a function under contract verified by Verus, or a Kani '
                 'harness/contract checked by CBMC); distinct by name',
            explanation='; '.join(self.notes),
        )
        cov.update(self.extra)
        ev = dict(property_id=self.prop, tier=self.tier, seed=self.seed, level=self.level,
                  coverage=cov, assumptions=self.assumptions, wall_s=round(wall, 2),
                  violations=len(self.violations))
        with open(os.path.join(EVID, self.prop + '.json'), 'w') as f:
            json.dump(ev, f, indent=1)
        for k, ob in self.known_hits:
            print('KNOWN-FINDING: property=%s %s' % (self.prop, k['what']))
        for v in self.violations:
            tail = '' if v['witness'] is not None else ' no-failing-input-found'
            print('VIOLATION property=%s replay=%s obligation=%s%s' % (self.prop, v['replay'], json.dumps(v['obligation']), tail))
        if self.violations:
            rc = 1
        elif self.undecided:
            rc = 2
        else:
            rc = 0
        print('%s: %s  obligations=%d discharged=%d violations=%d undecided=%d wall=%.1fs' % (
            self.prop, {0: 'HOLDS', 1: 'VIOLATED', 2: 'UNDECIDED'}[rc], self.obligations, self.discharged,
            len(self.violations), len(self.undecided), wall))
        sys.stdout.flush()
        return rc
