"""Mechanical extraction of items from /repo's working tree for Engine V (Verus).

Items are located by *name* (never by line number) on a comment-blanked copy of the
source (same length, so offsets are shared with the original text).  Every failure to find
or parse something raises LostAnchor; the driver turns that into exit 2, never an alarm.
"""
import hashlib
import re


class LostAnchor(Exception):
    pass


# --------------------------------------------------------------------------------------
# lexical helpers
# --------------------------------------------------------------------------------------

def blank_comments(src):
    """Return a copy of src in which comments, string and char literal *contents* are
    replaced by spaces (newlines kept) so that brace matching and keyword search are safe.
    Length is preserved."""
    out = list(src)
    i, n = 0, len(src)
    while i < n:
        c = src[i]
        two = src[i:i + 2]
        if two == '//':
            j = src.find('\n', i)
            if j < 0:
                j = n
            for k in range(i, j):
                out[k] = ' '
            i = j
        elif two == '/*':
            depth, j = 1, i + 2
            while j < n and depth:
                if src[j:j + 2] == '/*':
                    depth += 1
                    j += 2
                elif src[j:j + 2] == '*/':
                    depth -= 1
                    j += 2
                else:
                    j += 1
            for k in range(i, j):
                if out[k] != '\n':
                    out[k] = ' '
            i = j
        elif c == '"':
            j = i + 1
            while j < n and src[j] != '"':
                if src[j] == '\\':
                    j += 1
                j += 1
            for k in range(i + 1, j):
                if out[k] != '\n':
                    out[k] = ' '
            i = j + 1
        elif c == 'r' and re.match(r'r#*"', src[i:i + 8]) and (i == 0 or not (src[i - 1].isalnum() or src[i - 1] == '_')):
            m = re.match(r'r(#*)"', src[i:])
            hashes = m.group(1)
            end = src.find('"' + hashes, i + len(m.group(0)))
            if end < 0:
                end = n
            for k in range(i + len(m.group(0)), end):
                if out[k] != '\n':
                    out[k] = ' '
            i = end + 1 + len(hashes)
        elif c == "'":
            # char literal or lifetime
            if i + 1 < n and src[i + 1] == '\\':
                j = src.find("'", i + 2)
                # '\'' case
                if j == i + 2:
                    j = src.find("'", j + 1)
                for k in range(i + 1, j):
                    out[k] = ' '
                i = j + 1
            elif i + 2 < n and src[i + 2] == "'":
                out[i + 1] = ' '
                i += 3
            else:
                i += 1  # lifetime
        else:
            i += 1
    return ''.join(out)


OPEN = {'(': ')', '[': ']', '{': '}'}
CLOSE = {v: k for k, v in OPEN.items()}


def match_close(blank, i):
    """blank[i] is an opening bracket; return index of its matching close."""
    stack = []
    n = len(blank)
    j = i
    while j < n:
        c = blank[j]
        if c in OPEN:
            stack.append(c)
        elif c in CLOSE:
            if not stack or stack[-1] != CLOSE[c]:
                raise LostAnchor('unbalanced bracket near offset %d' % j)
            stack.pop()
            if not stack:
                return j
        j += 1
    raise LostAnchor('unterminated bracket at offset %d' % i)


def norm(s):
    return re.sub(r'\s+', ' ', s).strip()


def squeeze(s):
    """whitespace-insensitive key for header comparison"""
    return re.sub(r'\s+', '', s)


def digest(s):
    return hashlib.sha256(s.encode()).hexdigest()[:16]


# --------------------------------------------------------------------------------------
# Source file model
# --------------------------------------------------------------------------------------

class Source:
    def __init__(self, path, text=None):
        self.path = path
        if text is None:
            with open(path) as f:
                text = f.read()
        self.text = text
        self.blank = blank_comments(text)

    # -- generic: find the end of an item starting at `start` (a keyword position) -------
    def _item_end(self, start):
        """item ends at the matching '}' of the first top-level '{', or at ';' if that
        comes first (at bracket depth 0)."""
        b = self.blank
        j = start
        n = len(b)
        while j < n:
            c = b[j]
            if c == ';':
                return j + 1
            if c == '{':
                return match_close(b, j) + 1
            if c in '([':
                j = match_close(b, j)
            j += 1
        raise LostAnchor('no end of item at %d in %s' % (start, self.path))

    def _attr_start(self, kw_start, lo=0):
        """extend backwards over `pub`, `unsafe`, attributes and doc comments directly
        preceding the keyword (only whitespace between)."""
        t, b = self.text, self.blank
        i = kw_start
        while True:
            # skip whitespace backwards
            k = i
            while k > lo and t[k - 1] in ' \t\r\n':
                k -= 1
            # modifiers
            m = re.search(r'(pub(\s*\([^)]*\))?|unsafe|const|default)$', b[lo:k])
            if m:
                i = lo + m.start()
                continue
            # attribute  #[...]
            if k > lo and b[k - 1] == ']':
                # find matching '['
                depth, p = 0, k - 1
                while p >= lo:
                    if b[p] == ']':
                        depth += 1
                    elif b[p] == '[':
                        depth -= 1
                        if depth == 0:
                            break
                    p -= 1
                if p > lo and b[p - 1] == '#':
                    i = p - 1
                    continue
                if p > lo + 1 and b[p - 2:p] == '#!':
                    break
            # doc / line comment: line consisting only of a comment
            ls = t.rfind('\n', lo, k) + 1 if k > lo else lo
            line = t[ls:k]
            if line.strip().startswith('//') and b[ls:k].strip() == '':
                i = ls
                continue
            break
        return i

    def find_impl(self, header, nth=0, lo=0, hi=None):
        """Find `impl ... {` whose header (text between `impl` and `where`/`{`), with all
        whitespace removed, equals `header` likewise squeezed. Returns (start, brace_open, end)."""
        b = self.blank
        hi = len(b) if hi is None else hi
        want = squeeze(header)
        hits = []
        for m in re.finditer(r'\bimpl\b', b[lo:hi]):
            s = lo + m.start()
            # find body brace at depth 0
            j = s
            while j < hi and b[j] != '{':
                if b[j] in '([':
                    j = match_close(b, j)
                if b[j] == ';':
                    break
                j += 1
            if j >= hi or b[j] != '{':
                continue
            head = b[s:j]
            head_nowhere = re.split(r'\bwhere\b', head)[0]
            if squeeze(head_nowhere) == want:
                hits.append((s, j, match_close(b, j) + 1))
        if len(hits) <= nth:
            raise LostAnchor('impl header not found: %r (#%d) in %s' % (header, nth, self.path))
        return hits[nth]

    def find_block(self, kw, name, lo=0, hi=None):
        """find `<kw> <name>` (kw in struct/trait/mod/enum/macro_rules!) -> (start,end)"""
        b = self.blank
        hi = len(b) if hi is None else hi
        if kw == 'macro_rules!':
            pat = r'\bmacro_rules!\s*' + re.escape(name) + r'\b'
        else:
            pat = r'\b' + kw + r'\s+' + re.escape(name) + r'\b'
        m = re.search(pat, b[lo:hi])
        if not m:
            raise LostAnchor('%s %s not found in %s' % (kw, name, self.path))
        s = lo + m.start()
        e = self._item_end(s)
        return s, e

    def find_fn(self, name, lo=0, hi=None, nth=0, top_only=False):
        """find `fn <name>` at any depth within [lo,hi) -> (start_with_attrs, kw_start, end)"""
        b = self.blank
        hi = len(b) if hi is None else hi
        hits = []
        for m in re.finditer(r'\bfn\s+' + re.escape(name) + r'\b', b[lo:hi]):
            s = lo + m.start()
            if top_only and (b.count('{', lo, s) != b.count('}', lo, s)):
                continue
            e = self._item_end(s)
            hits.append((self._attr_start(s, lo), s, e))
        if len(hits) <= nth:
            raise LostAnchor('fn %s (#%d) not found in %s' % (name, nth, self.path))
        return hits[nth]

    def container_range(self, anchor):
        """anchor: '' (whole file) | 'impl:<header>[#n]' | 'trait:<Name>' | 'mod:<name>'.
        Several anchors may be nested with ' >> '. Returns (lo, hi) of the *body*."""
        lo, hi = 0, len(self.blank)
        if not anchor:
            return lo, hi
        for part in anchor.split('>>'):
            part = part.strip()
            if part.startswith('impl:'):
                h = part[5:]
                nth = 0
                m = re.search(r'#(\d+)$', h)
                if m:
                    nth = int(m.group(1))
                    h = h[:m.start()]
                s, bo, e = self.find_impl('impl' + h if not h.strip().startswith('impl') else h, nth, lo, hi)
                lo, hi = bo + 1, e - 1
            elif part.startswith('trait:') or part.startswith('mod:'):
                kw, nm = part.split(':', 1)
                s, e = self.find_block(kw, nm.strip(), lo, hi)
                bo = self.blank.index('{', s)
                lo, hi = bo + 1, e - 1
            else:
                raise LostAnchor('bad container anchor %r' % part)
        return lo, hi


# --------------------------------------------------------------------------------------
# macro instantiation (non-recursive arms; textual substitution as rustc does)
# --------------------------------------------------------------------------------------

def macro_arms(src, name):
    """Return list of (pattern_text, body_text) for macro_rules! name."""
    s, e = src.find_block('macro_rules!', name)
    b, t = src.blank, src.text
    bo = b.index('{', s)
    i = bo + 1
    end = e - 1
    arms = []
    while True:
        while i < end and b[i] in ' \t\r\n;':
            i += 1
        if i >= end:
            break
        if b[i] not in '([{':
            raise LostAnchor('macro %s: cannot parse arm at %d' % (name, i))
        pc = match_close(b, i)
        pat = t[i + 1:pc]
        j = pc + 1
        m = re.match(r'\s*=>\s*', b[j:])
        if not m:
            raise LostAnchor('macro %s: no => ' % name)
        j += m.end()
        bc = match_close(b, j)
        body = t[j + 1:bc]
        arms.append((pat, body))
        i = bc + 1
    return arms


def instantiate(body, binding):
    """Substitute $name occurrences (simple metavariables only; repetition groups must be
    expanded by the caller)."""
    def rep(m):
        k = m.group(1)
        if k not in binding:
            raise LostAnchor('macro metavariable $%s unbound' % k)
        return binding[k]
    return re.sub(r'\$([A-Za-z_][A-Za-z0-9_]*)', rep, body)


# --------------------------------------------------------------------------------------
# function text surgery
# --------------------------------------------------------------------------------------

class FnText:
    """Split a fn item into (signature, body) and support the local rewrite rules."""

    def __init__(self, text):
        self.full = text
        b = blank_comments(text)
        m = re.search(r'\bfn\b', b)
        if not m:
            raise LostAnchor('not a fn: %r' % text[:60])
        self.kw = m.start()
        # parameter list
        p = b.index('(', self.kw)
        # skip generics: the first '(' after fn name that is at angle depth 0
        # (generic bounds like Fn(A) -> B could contain parens)
        i = self.kw
        depth = 0
        while i < len(b):
            c = b[i]
            if c == '<':
                depth += 1
            elif c == '>' and b[i - 1] != '-':
                depth -= 1
            elif c == '(' and depth == 0:
                break
            i += 1
        p = i
        pc = match_close(b, p)
        # body brace: first '{' at depth 0 after params
        j = pc + 1
        while j < len(b) and b[j] != '{' and b[j] != ';':
            if b[j] in '([':
                j = match_close(b, j)
            j += 1
        if j >= len(b):
            raise LostAnchor('fn without body')
        self.has_body = b[j] == '{'
        self.params = (p, pc)
        self.body_open = j
        self.body_close = match_close(b, j) if self.has_body else j
        self.blank = b
        # return type span
        tail = b[pc + 1:j]
        self.ret = None
        m = re.match(r'\s*->\s*', tail)
        if m:
            rs = pc + 1 + m.end()
            # ends at 'where' at angle-depth 0 or at body
            k, depth = rs, 0
            re_end = j
            while k < j:
                c = b[k]
                if c == '<':
                    depth += 1
                elif c == '>' and b[k - 1] != '-':
                    depth -= 1
                elif c in '([':
                    k = match_close(b, k)
                elif depth == 0 and re.match(r'\bwhere\b', b[k:k + 6]) and not (b[k - 1].isalnum() or b[k - 1] == '_'):
                    re_end = k
                    break
                k += 1
            self.ret = (rs, re_end)

    def signature(self):
        return self.full[self.kw:self.body_open]

    def body(self):
        return self.full[self.body_open:self.body_close + 1]


LOOP_RE = re.compile(r'\b(while|for|loop)\b')


def find_loops(body_blank):
    """positions (kw_start, brace_open) of loops in textual order in a blanked body."""
    res = []
    for m in LOOP_RE.finditer(body_blank):
        s = m.start()
        # skip identifiers like `for<'a>` (HRTB) — followed by '<'
        after = body_blank[m.end():m.end() + 1]
        if m.group(1) == 'for' and body_blank[m.end():].lstrip().startswith('<'):
            continue
        # label or keyword preceded by '.' / ident char handled by \b; skip `loop` used as field etc.
        if s > 0 and body_blank[s - 1] == '.':
            continue
        j = m.end()
        while j < len(body_blank) and body_blank[j] != '{':
            if body_blank[j] in '([':
                j = match_close(body_blank, j)
            j += 1
        if j >= len(body_blank):
            raise LostAnchor('loop without body')
        res.append((s, j))
    return res
