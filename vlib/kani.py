"""Engine K: run Kani harness crates (/verif/kani/<unit>) against the crates of the repo under
test and record results into a Ctx (DESIGN.md §2, §5)."""
import json
import os
import re
import shutil
import subprocess
import time

from .common import BUILD, VERIF, REPO

KBUILD = os.path.join(BUILD, 'kani')


class _Done:
    def __init__(self, rc, out, err):
        self.returncode, self.stdout, self.stderr = rc, out, err


def run_group(cmd, cwd, env, timeout):
    """run a command in its own process group; on timeout kill the whole group (cargo-kani leaves cbmc children
    behind otherwise). Returns None on timeout."""
    import signal
    pr = subprocess.Popen(cmd, cwd=cwd, env=env, stdout=subprocess.PIPE, stderr=subprocess.PIPE, text=True,
                          start_new_session=True)
    try:
        out, err = pr.communicate(timeout=timeout)
        return _Done(pr.returncode, out, err)
    except subprocess.TimeoutExpired:
        try:
            os.killpg(pr.pid, signal.SIGKILL)
        except OSError:
            pass
        try:
            pr.communicate(timeout=10)
        except Exception:
            pass
        return None


def prepare_crate(unit):
    """copy /verif/kani/<unit> to .build/kani/<unit>/crate with path deps pointed at REPO"""
    src = os.path.join(VERIF, 'kani', unit)
    base = os.path.join(KBUILD, unit)
    crate = os.path.join(base, 'crate')
    if os.path.isdir(crate):
        shutil.rmtree(crate)
    os.makedirs(base, exist_ok=True)
    shutil.copytree(src, crate, ignore=shutil.ignore_patterns('Cargo.lock', 'target'))
    # shared spec module
    common = os.path.join(VERIF, 'kani', 'common')
    if os.path.isdir(common):
        shutil.copytree(common, os.path.join(crate, 'src', 'common'), dirs_exist_ok=True)
    ct = os.path.join(crate, 'Cargo.toml')
    with open(ct) as f:
        t = f.read()
    with open(ct, 'w') as f:
        f.write(t.replace('/repo/', REPO.rstrip('/') + '/'))
    lock = os.path.join(REPO, 'Cargo.lock')
    if os.path.exists(lock):
        shutil.copy(lock, os.path.join(crate, 'Cargo.lock'))
    return crate, os.path.join(base, 'target')


def run_kani(ctx, unit, harness=(), flags=(), rustflags=None, jobs=16, harness_timeout='10m',
             wall_timeout=3600, tag=None, features=None, no_default_features=False,
             allow_failed=None, bounded_note=None, key_prefix=None, playback=True, search=None, ignore_nan_checks=True, soft_timeout=False):
    """Run harnesses (substring filters) of kani/<unit>. Returns parsed JSON (or None)."""
    crate, target = prepare_crate(unit)
    tag = tag or 'default'
    out_json = os.path.join(KBUILD, unit, 'result_%s.json' % tag)
    if os.path.exists(out_json):
        os.remove(out_json)
    cmd = ['cargo', 'kani', '-Z', 'function-contracts', '-Z', 'stubbing', '-Z', 'unstable-options',
           '--export-json', out_json, '--harness-timeout', harness_timeout,
           '-j', str(jobs), '--output-format=terse']
    for h in harness:
        cmd += ['--harness', h]
    if features:
        cmd += ['--features', features]
    if no_default_features:
        cmd += ['--no-default-features']
    cmd += list(flags)
    env = dict(os.environ, CARGO_NET_OFFLINE='true', CARGO_TARGET_DIR=os.path.join(target, tag))
    if rustflags:
        env['RUSTFLAGS'] = rustflags
    t0 = time.time()
    ctx.cmds.append(('RUSTFLAGS=%r ' % rustflags if rustflags else '') + ' '.join(cmd).replace(out_json, '<out.json>'))
    p = run_group(cmd, cwd=crate, env=env, timeout=wall_timeout)
    if p is None:
        ctx.undecide('kani %s/%s: wall-clock timeout %ds' % (unit, tag, wall_timeout))
        return None
    wall = time.time() - t0
    log = p.stdout + '\n' + p.stderr
    with open(os.path.join(KBUILD, unit, 'log_%s.txt' % tag), 'w') as f:
        f.write(log)
    if not os.path.exists(out_json):
        # compile failure (e.g. the repo changed an API the harness uses) or Kani crash
        m = re.findall(r'(?m)^error(?:\[E\d+\])?: .*$', log)
        ctx.undecide('kani %s/%s produced no result (harness crate does not build against this tree, or Kani crashed): %s'
                     % (unit, tag, '; '.join(m[:3]) or log[-400:]))
        return None
    try:
        js = json.load(open(out_json))
    except Exception as e:
        ctx.undecide('kani %s/%s: unreadable result json: %r' % (unit, tag, e))
        return None
    results = js.get('verification_results', {}).get('results', [])
    props = {d['harness_id']: d['property_details'] for d in js.get('property_details', [])}
    stats = {d['harness_id']: d.get('cbmc_stats', {}) for d in js.get('cbmc', [])}
    meta = {d['pretty_name']: d for d in js.get('harness_metadata', [])}
    if not results:
        ctx.undecide('kani %s/%s: no harness matched %s (vacuous run)' % (unit, tag, list(harness)))
        return None
    allow_failed = allow_failed or (lambda h, c: False)
    n_ok = 0
    per = []
    failing = []
    for r in results:
        hid = r['harness_id']
        checks = r.get('checks', [])
        failed = [c for c in checks if c.get('status') in ('Failure', 'Failed', 'FAILURE')]
        if ignore_nan_checks:
            # `NaN on addition/multiplication/...` are Kani-specific float checks: producing a NaN is not a panic in
            # Rust; harnesses that care about NaN assert it explicitly
            failed = [c for c in failed if not c.get('description', '').startswith('NaN on ')]
        covers_all = [c for c in checks if c.get('category') == 'cover']
        # covers named MUST-BE-UNREACHABLE state that control never gets there (e.g. after an operation that
        # has to panic): satisfied => violation; all other covers are vacuity guards and must be satisfied
        must_unreach = [c for c in covers_all if 'MUST-BE-UNREACHABLE' in c.get('description', '')]
        covers = [c for c in covers_all if c not in must_unreach]
        unsat_cov = [c for c in covers if c.get('status') not in ('Satisfied', 'SATISFIED')]
        reached = [c for c in must_unreach if c.get('status') in ('Satisfied', 'SATISFIED')]
        should_panic = bool((meta.get(hid, {}).get('attributes') or {}).get('should_panic'))
        if should_panic:
            # expected panics are not failures; only assertions carrying the marker text are property failures
            failed = [c for c in failed if 'outside [MIN, MAX]' in c.get('description', '') or c.get('description', '').startswith('P:')]
        failed = failed + reached
        undet = [c for c in checks if c.get('status') in ('Undetermined', 'UNDETERMINED')]
        unwind_fail = [c for c in failed if c.get('category') == 'unwind' or 'unwinding assertion' in c.get('description', '')]
        real_fail = [c for c in failed if c not in unwind_fail and not allow_failed(hid, c)]
        pd = props.get(hid, {})
        per.append(dict(harness=hid, status=r.get('status'), duration_ms=r.get('duration_ms'),
                        checks=len(checks), failed=len(real_fail), covers=len(covers),
                        covers_unsatisfied=len(unsat_cov),
                        contract=(meta.get(hid, {}).get('contract') or {}).get('contracted_function_name'),
                        solver_s=(stats.get(hid) or {}).get('runtime_solver_s'),
                        vccs=(stats.get(hid) or {}).get('vccs_generated')))
        ctx.obligations += 1
        if real_fail:
            failing.append((hid, real_fail))
            continue
        if unwind_fail:
            ctx.undecide('kani %s: unwinding bound too small in %s (bound exceeded, undecided)' % (unit, hid))
            continue
        only_ignored = ignore_nan_checks and any(c.get('status') in ('Failure', 'Failed', 'FAILURE') for c in checks) and not failed
        if r.get('status') != 'Success' and not failed and not only_ignored and soft_timeout:
            # deep-tier shape that CBMC does not finish: reported as NOT COVERED, never as proved, exit unaffected
            ctx.obligations -= 1
            ctx.bounded.append('NOT COVERED (solver did not finish within %s): %s' % (harness_timeout, hid))
            per[-1]['not_covered'] = True
            continue
        if r.get('status') != 'Success' and not failed and not only_ignored:
            ctx.undecide('kani %s: harness %s did not complete (status %s: timeout / solver limit)' % (unit, hid, r.get('status')))
            continue
        if r.get('status') != 'Success' and failed and not real_fail:
            # only whitelisted failures
            pass
        if unsat_cov:
            ctx.undecide('kani %s: vacuity guard — cover not satisfied in %s: %s' % (
                unit, hid, '; '.join(c.get('description', '') for c in unsat_cov[:3])))
            continue
        if undet:
            ctx.undecide('kani %s: undetermined checks in %s' % (unit, hid))
            continue
        n_ok += 1
        ctx.discharged += 1
        if len(ctx.samples) < 40:
            cf = (meta.get(hid, {}).get('contract') or {}).get('contracted_function_name')
            ctx.samples.append('kani harness %s%s: %d checks, 0 failed' % (hid, ' (contract of %s)' % cf if cf else '', len(checks)))
    # ---- failures: get concrete values (for the cheapest failing harness only: Kani's concrete
    # playback mode is slow), report every failing harness
    durations = {r['harness_id']: (r.get('duration_ms') or 0) for r in results}
    failing.sort(key=lambda t: durations.get(t[0], 0))
    for idx, (hid, fails) in enumerate(failing):
        desc = '; '.join(sorted(set('%s [%s @ %s:%s]' % (re.sub(r'\s+', ' ', c.get('description', '')), c.get('function', ''),
                                                        os.path.basename(str((c.get('location') or {}).get('file', ''))),
                                                        (c.get('location') or {}).get('line', '')) for c in fails)))[:1500]
        witness, pb = None, None
        if playback and idx < 1:
            witness, pb = concrete_playback(unit, crate, env, hid, flags, features, no_default_features)
        short = hid.split('::')[-1]
        replay_cmd = '%s/tools/kani_replay.sh %s %s %s' % (VERIF, unit, hid, tag)
        if witness is None and search is not None:
            # paired native search (finds an input only; never decides)
            from .vunit import Searcher
            crate_, target_of = search
            tgt = target_of(short)
            if tgt:
                sr = getattr(ctx, '_searchers', {}).get(crate_) or Searcher(crate_, ctx)
                ctx._searchers = dict(getattr(ctx, '_searchers', {}), **{crate_: sr})
                witness = sr.search(tgt)
                if witness:
                    replay_cmd = sr.replay_cmd(witness)
        key = '%s|%s|%s' % (key_prefix or ('kani:' + unit), short, re.sub(r'\s+', ' ', fails[0].get('description', ''))[:120])
        detail = 'Kani harness %s FAILED\n%s\n' % (hid, desc)
        if pb:
            detail += '\n---- concrete playback (Kani counterexample as a unit test over the real code) ----\n' + pb
        ctx.violation(key, 'kani %s::%s: %s' % (unit, short, desc[:300]), detail, witness=witness,
                      replay_cmd=replay_cmd,
                      engine='kani:' + unit)
    part = dict(engine='kani', unit=unit, tag=tag, harnesses=len(results), verified=n_ok, wall_s=round(wall, 1),
                flags=list(flags), rustflags=rustflags, per_harness=per)
    if bounded_note:
        part['bounded'] = bounded_note
    ctx.parts.append(part)
    return js


def concrete_playback(unit, crate, env, hid, flags, features, no_default_features):
    """re-run one failing harness with concrete playback; returns (witness dict, playback text)"""
    cmd = ['cargo', 'kani', '-Z', 'function-contracts', '-Z', 'stubbing', '-Z', 'concrete-playback',
           '--concrete-playback=print', '--harness', hid, '--exact', '--output-format=terse']
    if features:
        cmd += ['--features', features]
    if no_default_features:
        cmd += ['--no-default-features']
    cmd += [f for f in flags]
    p = run_group(cmd, cwd=crate, env=env, timeout=300)
    if p is None:
        return None, None
    out = p.stdout
    m = re.search(r'(?s)(#\[test\]\s*fn kani_concrete_playback_.*?\n\})', out)
    if not m:
        return None, None
    text = m.group(1)
    vals = re.findall(r'//\s*(.+)\n\s*vec!\[([0-9, ]*)\]', text)
    witness = dict(harness=hid, concrete_values=[dict(value=v.strip(), bytes=b.strip()) for v, b in vals])
    return witness, text
