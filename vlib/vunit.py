"""Run a Verus unit inside a property check (Engine V), following DESIGN.md §5."""
import json
import os
import re
import subprocess

from . import verus as V
from .extract import LostAnchor
from .common import BUILD, VERIF, REPO

VBUILD = os.path.join(BUILD, 'verus')


def build_search(unit, log=None):
    """build /verif/search/<unit> against the repo under test (native). The crate is copied to
    .build/search/<unit>/crate with the path dependencies pointed at REPO. Returns binary path."""
    import shutil
    d = os.path.join(VERIF, 'search', unit)
    if not os.path.isdir(d):
        return None
    tgt = os.path.join(BUILD, 'search', unit)
    crate = os.path.join(tgt, 'crate')
    if os.path.isdir(crate):
        shutil.rmtree(crate)
    shutil.copytree(d, crate, ignore=shutil.ignore_patterns('Cargo.lock', 'target'))
    ct = os.path.join(crate, 'Cargo.toml')
    with open(ct) as f:
        t = f.read()
    with open(ct, 'w') as f:
        f.write(t.replace('/repo/', REPO.rstrip('/') + '/'))
    if os.path.exists(os.path.join(REPO, 'Cargo.lock')):
        shutil.copy(os.path.join(REPO, 'Cargo.lock'), os.path.join(crate, 'Cargo.lock'))
    env = dict(os.environ, CARGO_TARGET_DIR=tgt, CARGO_NET_OFFLINE='true')
    p = subprocess.run(['cargo', 'build', '--offline', '-q'], cwd=crate, env=env, capture_output=True, text=True)
    if p.returncode != 0:
        try:
            os.remove(os.path.join(crate, 'Cargo.lock'))
        except OSError:
            pass
        p = subprocess.run(['cargo', 'build', '--offline', '-q'], cwd=crate, env=env, capture_output=True, text=True)
    if p.returncode != 0:
        if log:
            log('search driver for %s failed to build:\n%s' % (unit, p.stderr[-2000:]))
        return None
    return os.path.join(tgt, 'debug', 'search_' + unit)


class Searcher:
    """Paired witness search: native driver that executes the real functions against an
    executable transcription of the spec. Used only to find a witness, never to decide."""

    def __init__(self, unit, ctx):
        self.unit = unit
        self.ctx = ctx
        self.bin = None
        self.tried = False
        self.cache = {}

    def ensure(self):
        if not self.tried:
            self.tried = True
            self.bin = build_search(self.unit, self.ctx.log)
        return self.bin

    def search(self, target):
        if target in self.cache:
            return self.cache[target]
        w = None
        if self.ensure():
            try:
                p = subprocess.run([self.bin, 'search', target, str(self.ctx.seed)], capture_output=True, text=True, timeout=90)
                for ln in p.stdout.split('\n'):
                    if ln.startswith('WITNESS '):
                        try:
                            w = json.loads(ln[8:])
                        except Exception:
                            w = dict(raw=ln[8:])
                        break
            except subprocess.TimeoutExpired:
                # the search takes milliseconds on a tree where the target terminates: the real code hangs
                w = dict(target=target, hang=True, seed=self.ctx.seed, len=0,
                         got='real code did not terminate within 90 s on the search inputs', want='terminates')
        self.cache[target] = w
        return w

    def replay_cmd(self, w):
        if w.get('hang'):
            return 'timeout 90 %s search %s %s; test $? -ne 124 || { echo "=> real code does not terminate (violation reproduces)"; exit 1; }' % (
                self.bin, json.dumps(w['target']), w.get('seed', 0))
        return '%s replay %s' % (self.bin, json.dumps(json.dumps(w)))


def run_unit(ctx, unit_name, targets=None, search_map=None, only_labels=None, timeout=900, float_as_real=False, search_crate=None):
    """Assemble, verify, classify, search, record into ctx.

    search_map: label -> list of search targets (default: the label itself)
    only_labels: if given, only failures attributed to these labels (or to no label) count for this
                 property (a unit may serve several properties)."""
    os.makedirs(VBUILD, exist_ok=True)
    # A body anchor of a rewrite rule that is no longer found (the function was edited) leaves THAT function
    # unverified (external_body, contract assumed for its callers); the paired search then looks for a witness.
    pre_forced = {}
    while True:
        u = V.Unit(unit_name)
        try:
            text = u.assemble(force_external=set(pre_forced))
            break
        except LostAnchor as e:
            lab = getattr(e, 'label', None)
            if lab is None or lab in pre_forced or len(pre_forced) >= 4:
                gone = getattr(e, 'missing_label', None)
                if gone is not None and (only_labels is None or gone in only_labels):
                    # an extracted function no longer exists (e.g. a trait method override was removed and the default now
                    # applies): the unit cannot be assembled, but its paired search can still produce a witness
                    s_ = Searcher(search_crate or unit_name, ctx)
                    w = None
                    for tgt in (search_map or {}).get(gone, [gone]):
                        w = s_.search(tgt)
                        if w:
                            break
                    if w:
                        ctx.violation('%s|%s|missing+witness' % (unit_name, gone),
                                      '%s: the function under contract no longer exists (%s); paired search found a failing input' % (gone, str(e)[:200]),
                                      str(e), witness=w, replay_cmd=s_.replay_cmd(w), engine='verus:' + unit_name + '+search')
                ctx.undecide('lost anchor in unit %s: %s' % (unit_name, e))
                return None
            pre_forced[lab] = str(e)
        except V.Unsupported as e:
            ctx.undecide('unsupported construct in unit %s: %s' % (unit_name, e))
            return None
    path = os.path.join(VBUILD, unit_name + '.rs')
    with open(path, 'w') as f:
        f.write(text)
    for lab, why in sorted(pre_forced.items()):
        if only_labels is not None and lab not in only_labels:
            continue
        s_ = Searcher(search_crate or unit_name, ctx)
        w = None
        for tgt in (search_map or {}).get(lab, [lab]):
            w = s_.search(tgt)
            if w:
                break
        if w:
            ctx.violation('%s|%s|unverifiable+witness' % (unit_name, lab),
                          '%s: body changed beyond a rewrite-rule anchor (%s); paired search found a failing input' % (lab, why[:200]),
                          why, witness=w, replay_cmd=s_.replay_cmd(w), engine='verus:' + unit_name + '+search')
        else:
            ctx.undecide('lost anchor in unit %s: %s; function left unverified, paired search found no failing input' % (unit_name, why))
    res = V.run_verus(path, timeout=timeout)
    ctx.cmds.append('verus %s --output-json --time' % os.path.relpath(path, VERIF))
    if res.get('timeout'):
        ctx.undecide('verus timeout on unit %s' % unit_name)
        return None
    cl = V.classify(u, res)
    js = res.get('json')
    # must-fail probes (assert(false) under the axiom groups): they have to FAIL, else the axioms are inconsistent
    mf_seen = set(e.get('fn')[9:] for e in cl['errors'] if str(e.get('fn') or '').startswith('mustfail:'))
    cl['errors'] = [e for e in cl['errors'] if not str(e.get('fn') or '').startswith('mustfail:')]
    if not cl['compile_errors']:
        for mf in u.mustfail_labels:
            if mf not in mf_seen:
                ctx.undecide('must-fail probe %s in unit %s was PROVED: the assumed axioms are inconsistent' % (mf, unit_name))
        if res.get('json'):
            vr0 = res['json']['verification-results']
            vr0['errors'] = max(0, vr0.get('errors', 0) - len(mf_seen))
    forced = set()
    if cl['compile_errors']:
        # A function uses a construct outside the Verus subset (or no longer type-checks against the
        # contracts).  Attribute each error to the extracted function it lies in; those functions are
        # left unverified (external_body) so that the rest of the unit is still checked, and the paired
        # search looks for a concrete witness for them.
        ok = True
        for e in cl['compile_errors']:
            labs = set()
            for sp in e.get('spans', []):
                if sp.get('label'):
                    labs.add(sp['label'])
            if not labs and e.get('spans'):
                ok = False          # an error located outside every extracted function: cannot be attributed
            # (an error without any span — rustc repeats some diagnostics that way — is attributed by its located twin)
            forced |= labs
        if ok and forced:
            try:
                u2 = V.Unit(unit_name)
                text2 = u2.assemble(force_external=forced | set(pre_forced))
                with open(path, 'w') as f:
                    f.write(text2)
                res2 = V.run_verus(path, timeout=timeout)
                cl2 = V.classify(u2, res2)
                if not res2.get('timeout') and not cl2['compile_errors'] and res2.get('json') is not None:
                    first = '; '.join(e['message'] for e in cl['compile_errors'][:2])
                    u, text, res, cl, js = u2, text2, res2, cl2, res2.get('json')
                    for lab in sorted(forced):
                        if only_labels is not None and lab not in only_labels:
                            continue
                        s_ = Searcher(search_crate or unit_name, ctx)
                        w = None
                        for tgt in (search_map or {}).get(lab, [lab]):
                            w = s_.search(tgt)
                            if w:
                                break
                        if w:
                            ctx.violation('%s|%s|unverifiable+witness' % (unit_name, lab),
                                          '%s: body outside the Verus subset (%s); paired search found a failing input' % (lab, first[:200]),
                                          first, witness=w, replay_cmd=s_.replay_cmd(w), engine='verus:' + unit_name + '+search')
                        else:
                            ctx.undecide('%s: body uses a construct outside the supported Verus subset (%s); left unverified, '
                                         'paired search found no failing input' % (lab, first[:300]))
                else:
                    forced = set()
            except (LostAnchor, V.Unsupported):
                forced = set()
        else:
            forced = set()
    if (cl['compile_errors'] and not forced) or js is None:
        msg = '; '.join(e['message'] for e in cl['compile_errors'][:3]) or res['stderr'][-800:]
        ctx.undecide('unit %s: extracted code outside the supported subset / does not compile under Verus: %s' % (unit_name, msg))
        for e in cl['compile_errors'][:5]:
            ctx.log(e['rendered'])
        return None
    # ---- flaky-proof guard: a failed obligation counts only if its function still fails when verified
    # in isolation (fresh Z3 context: an error in one function can perturb later queries of the same
    # run) and under a second Z3 seed.
    if cl['errors']:
        def ekey(e):
            return (e.get('fn'), re.sub(r'\s+', ' ', e['obligation']))
        fr0 = V.function_results(res)
        failing = [n for n, r_ in fr0.items() if not r_['success'] and 'mustfail_' not in n]
        confirmed = {}
        ok_iso = True
        for name in failing:
            short = name.split('::', 1)[1] if '::' in name else name
            keys = None
            for extra in ((), ('--smt-option', 'smt.random_seed=11', '--smt-option', 'sat.random_seed=11')):
                r2 = V.run_verus(path, timeout=timeout, extra=('--verify-root', '--verify-function', short) + extra)
                if r2.get('timeout') or r2.get('json') is None:
                    ok_iso = False
                    break
                c2 = V.classify(u, r2)
                if c2['compile_errors']:
                    ok_iso = False
                    break
                k2 = dict((ekey(e), e) for e in c2['errors'])
                keys = k2 if keys is None else dict((k, v) for k, v in keys.items() if k in k2)
                if not keys:
                    break
            if not ok_iso:
                break
            confirmed.update(keys or {})
        if ok_iso and failing:
            before = set(ekey(e) for e in cl['errors'])
            dropped = before - set(confirmed.keys())
            if dropped:
                ctx.notes.append('obligations that failed only in the shared Z3 context (passed in isolation) accepted: %s'
                                 % '; '.join(sorted(k[1] for k in dropped))[:600])
            cl['errors'] = list(confirmed.values())
            nfail = len(set(e.get('fn') for e in cl['errors']))
            tot = js['verification-results']['verified'] + js['verification-results']['errors']
            js['verification-results']['errors'] = nfail
            js['verification-results']['verified'] = tot - nfail
    fr = V.function_results(res)
    vr = js['verification-results']
    labels = [i['label'][3:] for i in u.items if i['label'].startswith('fn ') and i['label'][3:] not in u.external_labels]
    if u.external_labels:
        ctx.add_assumption('[verus unit %s] contracts of %s are ASSUMED here (callee contract, body external) and verified '
                           'on the extracted bodies in the unit that owns them (ring_buffer)' % (unit_name, ', '.join(sorted(set(u.external_labels)))))
    searcher = Searcher(search_crate or unit_name, ctx)
    search_map = search_map or {}

    # ---- failures -----------------------------------------------------------------
    seen = set()
    n_fail_fns = set()
    for e in cl['errors']:
        fn = e.get('fn')
        if only_labels is not None and fn is not None and fn not in only_labels:
            continue
        key = '%s|%s|%s' % (unit_name, fn or 'lemma', re.sub(r'\s+', ' ', e['obligation'].split(': ', 1)[-1]))[:200]
        if key in seen:
            continue
        seen.add(key)
        n_fail_fns.add(fn)
        witness = None
        if fn is not None and e['kind'] in ('P', 'A'):
            for tgt in search_map.get(fn, [fn]):
                witness = searcher.search(tgt)
                if witness:
                    break
        if e['kind'] == 'R':
            ctx.undecide('resource limit in %s (%s)' % (fn, e['message']))
            continue
        if e['kind'] == 'A' and witness is None:
            ctx.undecide('proof scaffolding failed without a concrete witness (proof needs repair, not an alarm): ' + e['obligation'])
            ctx.log(e['rendered'])
            continue
        ctx.violation(key, e['obligation'], e['rendered'], witness=witness,
                      replay_cmd=searcher.replay_cmd(witness) if witness else None, engine='verus:' + unit_name)
        ctx.log(e['rendered'])

    # ---- accounting -----------------------------------------------------------------
    nfun = vr['verified'] + vr['errors']
    ctx.obligations += nfun
    ctx.discharged += vr['verified']
    spec_clauses = sum(1 for l, o in u.lines if o.get('section') == 'spec' and l.strip() and not l.strip().startswith('//'))
    part = dict(engine='verus', unit=unit_name, functions_checked=nfun, functions_verified=vr['verified'],
                errors=vr['errors'], contract_clause_lines=spec_clauses,
                smt_time_ms=(js.get('times-ms', {}).get('smt', {}) or {}).get('smt-run'),
                total_time_ms=js.get('times-ms', {}).get('total'), wall_s=round(res['wall'], 2),
                rules_fired=u.rules.fired,
                extracted=[dict(item=i['label'], file=i['file'], sha256_16=i['digest']) for i in u.items],
                per_function={k: v for k, v in sorted(fr.items())})
    ctx.parts.append(part)
    for l in labels:
        if only_labels is None or l in only_labels:
            ctx.functions.append('%s (verus unit %s)' % (l, unit_name))
    # samples: actual obligations (contract clauses) by label
    cur = None
    for l, o in u.lines:
        if o.get('section') == 'spec' and l.strip() and (only_labels is None or o.get('label') in only_labels):
            if len(ctx.samples) < 40:
                ctx.samples.append('%s :: %s' % (o.get('label'), l.strip()))
    for a in V.scan_assumptions(text):
        ctx.add_assumption('[verus unit %s] %s' % (unit_name, a))

    # ---- vacuity --------------------------------------------------------------------
    try:
        uv = V.Unit(unit_name)
        vtext = uv.assemble(vacuity=True)
        vpath = os.path.join(VBUILD, unit_name + '_vacuity.rs')
        with open(vpath, 'w') as f:
            f.write(vtext)
        vres = V.run_verus(vpath, timeout=timeout)
        if vres.get('timeout') or vres.get('json') is None:
            ctx.undecide('vacuity run of unit %s did not complete' % unit_name)
        else:
            vcl = V.classify(uv, vres)
            if vcl['compile_errors']:
                ctx.undecide('vacuity run of unit %s does not compile: %s' % (unit_name, vcl['compile_errors'][0]['message']))
            failed = set()
            for e in vcl['errors']:
                for s in e['spans']:
                    if s['origin'].get('section') == 'vacuity':
                        failed.add(s['origin'].get('label'))
            want = set(uv.fn_labels.keys())
            vac = sorted(want - failed)
            part['vacuity'] = dict(contracts_probed=len(want), satisfiable=len(want & failed), vacuous=vac)
            if vac and not vcl['compile_errors']:
                ctx.undecide('vacuous contract(s) in unit %s (assert(false) provable under the precondition): %s' % (unit_name, vac))
    except (LostAnchor, V.Unsupported) as e:
        ctx.undecide('vacuity assembly failed: %s' % e)
    return dict(unit=u, res=res, classified=cl)
