//! Paired witness search / replay for unit ring_buffer (C06).
//! Executes the REAL dasp_ring_buffer against an ideal queue (VecDeque) from every valid
//! state (cap <= MAXCAP, start, len) and prints one `WITNESS {json}` line per disagreement.
//! It only *finds inputs*; it never decides the property.
//!
//!   search_ring_buffer search <target|all> <seed>
//!   search_ring_buffer replay '<json witness>'      exit 1 if the disagreement reproduces
use dasp_ring_buffer::{Bounded, Fixed};
use std::collections::VecDeque;
use std::panic;

const MAXCAP: usize = 5;

fn data(cap: usize) -> Vec<i64> {
    (0..cap as i64).map(|i| 100 + i).collect()
}

fn model_bounded(cap: usize, start: usize, len: usize) -> VecDeque<i64> {
    let d = data(cap);
    (0..len).map(|i| d[(start + i) % cap]).collect()
}

fn model_fixed(cap: usize, first: usize) -> Vec<i64> {
    let d = data(cap);
    (0..cap).map(|i| d[(first + i) % cap]).collect()
}

fn fmt<T: std::fmt::Debug>(t: T) -> String {
    format!("{:?}", t)
}

/// run one operation on the real buffer from the given state; returns (got, want)
fn bounded_op(cap: usize, start: usize, len: usize, op: &str, arg: i64) -> (String, String) {
    let mut rb = Bounded::from_raw_parts(start, len, data(cap));
    let mut m = model_bounded(cap, start, len);
    let got;
    let want;
    match op {
        "get" => {
            got = fmt(rb.get(arg as usize).cloned());
            want = fmt(m.get(arg as usize).cloned());
        }
        "get_mut" => {
            let g = rb.get_mut(arg as usize).map(|x| { let o = *x; *x = -7; o });
            let w = m.get_mut(arg as usize).map(|x| { let o = *x; *x = -7; o });
            got = fmt((g, rb.iter().cloned().collect::<Vec<_>>()));
            want = fmt((w, m.iter().cloned().collect::<Vec<_>>()));
        }
        "index" => {
            let r = panic::catch_unwind(panic::AssertUnwindSafe(|| rb[arg as usize]));
            got = fmt(r.ok());
            want = fmt(m.get(arg as usize).cloned());
        }
        "push" => {
            let g = rb.push(arg);
            let w = if m.len() == cap { let o = m.pop_front(); m.push_back(arg); o } else { m.push_back(arg); None };
            let (s2, l2, _) = unsafe { rb.clone().into_raw_parts() };
            let wf = s2 < cap && l2 <= cap;
            got = fmt((g, if wf { rb.iter().cloned().collect::<Vec<_>>() } else { vec![] }, rb.len(), wf));
            want = fmt((w, m.iter().cloned().collect::<Vec<_>>(), m.len(), true));
        }
        "pop" => {
            let g = rb.pop();
            let w = m.pop_front();
            let (s2, l2, _) = unsafe { rb.clone().into_raw_parts() };
            let wf = s2 < cap && l2 <= cap;
            got = fmt((g, if wf { rb.iter().cloned().collect::<Vec<_>>() } else { vec![] }, rb.len(), wf));
            want = fmt((w, m.iter().cloned().collect::<Vec<_>>(), m.len(), true));
        }
        "slices" => {
            let (a, b) = rb.slices();
            let mut v = a.to_vec();
            v.extend_from_slice(b);
            got = fmt(v);
            want = fmt(m.iter().cloned().collect::<Vec<_>>());
        }
        "slices_mut" => {
            let (a, b) = rb.slices_mut();
            let mut v = a.to_vec();
            v.extend_from_slice(b);
            got = fmt(v);
            want = fmt(m.iter().cloned().collect::<Vec<_>>());
        }
        "iter" => {
            got = fmt(rb.iter().cloned().collect::<Vec<_>>());
            want = fmt(m.iter().cloned().collect::<Vec<_>>());
        }
        "iter_mut" => {
            got = fmt(rb.iter_mut().map(|x| *x).collect::<Vec<_>>());
            want = fmt(m.iter().cloned().collect::<Vec<_>>());
        }
        "drain" => {
            let k = (arg as usize).min(len);
            let g: Vec<i64> = rb.drain().take(k).collect();
            let w: Vec<i64> = m.drain(..k).collect();
            got = fmt((g, rb.iter().cloned().collect::<Vec<_>>()));
            want = fmt((w, m.iter().cloned().collect::<Vec<_>>()));
        }
        "from_raw_parts" if arg == 3 => {
            // a VALID (start, len): the buffer holds exactly the `len` elements from `start` on, wrapping (no truncation)
            got = fmt((rb.len(), rb.iter().cloned().collect::<Vec<_>>(), unsafe { rb.into_raw_parts().0 }));
            want = fmt((len, m.clone(), start));
        }
        "from_raw_parts" => {
            // arg encodes an invalid (start, len): must panic
            let (bs, bl) = if arg == 0 { (cap, 0) } else { (0, cap + arg as usize) };
            let r = panic::catch_unwind(|| { let _ = Bounded::from_raw_parts(bs, bl, data(cap)); });
            got = fmt(r.is_err());
            want = fmt(true);
        }
        "len" => {
            got = fmt((rb.len(), rb.is_empty(), rb.is_full(), rb.max_len()));
            want = fmt((m.len(), m.is_empty(), m.len() == cap, cap));
        }
        _ => panic!("unknown op {}", op),
    }
    (got, want)
}

fn fixed_op(cap: usize, first: usize, op: &str, arg: i64) -> (String, String) {
    let mut rb = Fixed::from_raw_parts(first, data(cap));
    let mut m = model_fixed(cap, first);
    let idx = arg as u64 as usize;
    let got;
    let want;
    match op {
        "get" => {
            let r = panic::catch_unwind(panic::AssertUnwindSafe(|| *rb.get(idx)));
            got = fmt(r.ok());
            want = fmt(Some(m[idx % cap]));
        }
        "get_mut" => {
            let r = panic::catch_unwind(panic::AssertUnwindSafe(|| { let x = rb.get_mut(idx); let o = *x; *x = -7; o }));
            let o = m[idx % cap];
            m[idx % cap] = -7;
            got = fmt((r.ok(), rb.iter().cloned().collect::<Vec<_>>()));
            want = fmt((Some(o), m.clone()));
        }
        "index" => {
            let r = panic::catch_unwind(panic::AssertUnwindSafe(|| rb[idx]));
            got = fmt(r.ok());
            want = fmt(Some(m[idx % cap]));
        }
        "push" => {
            let g = rb.push(arg);
            let w = m.remove(0);
            m.push(arg);
            let (f2, _) = rb.clone().into_raw_parts();
            let wf = f2 < cap;
            got = fmt((g, if wf { rb.iter().cloned().collect::<Vec<_>>() } else { vec![] }, rb.len(), wf));
            want = fmt((w, m.clone(), cap, true));
        }
        "from_raw_parts" => {
            let r = panic::catch_unwind(|| { let _ = Fixed::from_raw_parts(cap + arg as usize, data(cap)); });
            got = fmt(r.is_err());
            want = fmt(true);
        }
        "set_first" => {
            rb.set_first(idx);
            let d = data(cap);
            let w: Vec<i64> = (0..cap).map(|i| d[(idx % cap + i) % cap]).collect();
            got = fmt(rb.iter().cloned().collect::<Vec<_>>());
            want = fmt(w);
        }
        "slices" => {
            let (a, b) = rb.slices();
            let mut v = a.to_vec();
            v.extend_from_slice(b);
            got = fmt(v);
            want = fmt(m.clone());
        }
        "slices_mut" => {
            let (a, b) = rb.slices_mut();
            let mut v = a.to_vec();
            v.extend_from_slice(b);
            got = fmt(v);
            want = fmt(m.clone());
        }
        "iter" => {
            got = fmt(rb.iter().cloned().collect::<Vec<_>>());
            want = fmt(m.clone());
        }
        "iter_mut" => {
            got = fmt(rb.iter_mut().map(|x| *x).collect::<Vec<_>>());
            want = fmt(m.clone());
        }
        "iter_loop" => {
            let k = 2 * cap + 1;
            got = fmt(rb.iter_loop().take(k).cloned().collect::<Vec<_>>());
            want = fmt((0..k).map(|i| m[i % cap]).collect::<Vec<_>>());
        }
        _ => panic!("unknown op {}", op),
    }
    (got, want)
}

fn run(kind: &str, cap: usize, a: usize, b: usize, op: &str, arg: i64) -> (String, String) {
    let r = panic::catch_unwind(|| if kind == "Bounded" { bounded_op(cap, a, b, op, arg) } else { fixed_op(cap, a, op, arg) });
    match r {
        Ok(x) => x,
        Err(_) => ("<panic>".to_string(), "<no panic>".to_string()),
    }
}

fn witness(kind: &str, cap: usize, a: usize, b: usize, op: &str, arg: i64, got: &str, want: &str) {
    println!(
        "WITNESS {{\"target\":\"{}::{}\",\"kind\":\"{}\",\"cap\":{},\"start_or_first\":{},\"len\":{},\"op\":\"{}\",\"arg\":{},\"got\":{:?},\"want\":{:?}}}",
        kind, op, kind, cap, a, b, op, arg, got, want
    );
}

fn field<'a>(js: &'a str, k: &str) -> &'a str {
    let pat = format!("\"{}\":", k);
    let i = js.find(&pat).expect("field") + pat.len();
    let rest = &js[i..];
    let rest = rest.trim_start();
    if rest.starts_with('"') {
        let e = rest[1..].find('"').unwrap();
        &rest[1..1 + e]
    } else {
        let e = rest.find(|c: char| c == ',' || c == '}').unwrap();
        rest[..e].trim()
    }
}

fn main() {
    panic::set_hook(Box::new(|_| {}));
    let args: Vec<String> = std::env::args().collect();
    if args.len() >= 3 && args[1] == "replay" {
        let js = &args[2];
        let kind = field(js, "kind");
        let cap: usize = field(js, "cap").parse().unwrap();
        let a: usize = field(js, "start_or_first").parse().unwrap();
        let b: usize = field(js, "len").parse().unwrap();
        let op = field(js, "op");
        let arg: i64 = field(js, "arg").parse().unwrap();
        let (got, want) = run(kind, cap, a, b, op, arg);
        println!("replay {}::{} from state cap={} start/first={} len={} arg={}", kind, op, cap, a, b, arg);
        println!("  real code : {}", got);
        println!("  contract  : {}", want);
        if got != want {
            println!("  => DISAGREE (violation reproduces on the real code)");
            std::process::exit(1);
        }
        println!("  => agree");
        return;
    }
    let target = args.get(2).map(|s| s.as_str()).unwrap_or("all");
    let seed: u64 = args.get(3).and_then(|s| s.parse().ok()).unwrap_or(0);
    let want_t = |t: &str| target == "all" || target == t;
    let mut found = 0usize;
    let mut per: std::collections::HashMap<String, usize> = std::collections::HashMap::new();
    let mut evals = 0usize;
    let big: Vec<i64> = vec![-1i64 /* usize::MAX */, -2, (usize::MAX / 2) as i64, (seed % 1000) as i64 + 7];
    for cap in 1..=MAXCAP {
        for start in 0..cap {
            for len in 0..=cap {
                for op in ["get", "get_mut", "index", "push", "pop", "slices", "slices_mut", "iter", "iter_mut", "drain", "len", "from_raw_parts"] {
                    if !want_t(&format!("Bounded::{}", op)) { continue; }
                    let nargs: Vec<i64> = match op {
                        "get" | "get_mut" | "index" => (0..(cap as i64 + 2)).collect(),
                        "drain" => (0..=cap as i64).collect(),
                        "from_raw_parts" => vec![0, 1, 2, 3],
                        "push" => vec![55],
                        _ => vec![0],
                    };
                    for arg in nargs {
                        evals += 1;
                        let (g, w) = run("Bounded", cap, start, len, op, arg);
                        if g != w { let c = per.entry(format!("B{}", op)).or_insert(0); *c += 1; if *c <= 2 { witness("Bounded", cap, start, len, op, arg, &g, &w); found += 1; } }
                    }
                }
            }
            let first = start;
            for op in ["get", "get_mut", "index", "push", "set_first", "slices", "slices_mut", "iter", "iter_mut", "iter_loop", "from_raw_parts"] {
                if !want_t(&format!("Fixed::{}", op)) { continue; }
                let nargs: Vec<i64> = match op {
                    "get" | "get_mut" | "index" | "set_first" => (0..(2 * cap as i64 + 2)).chain(big.iter().cloned()).collect(),
                    "push" => vec![55],
                    "from_raw_parts" => vec![0, 1],
                    _ => vec![0],
                };
                for arg in nargs {
                    evals += 1;
                    let (g, w) = run("Fixed", cap, first, 0, op, arg);
                    if g != w { let c = per.entry(format!("F{}", op)).or_insert(0); *c += 1; if *c <= 2 { witness("Fixed", cap, first, 0, op, arg, &g, &w); found += 1; } }
                }
            }
        }
    }
    println!("SEARCHED {} cases, {} witnesses", evals, found);
}
