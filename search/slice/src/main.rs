//! Paired witness search / replay for unit slice (C10): boxed conversions under a counting allocator.
//!   search_slice search <target|all> <seed>      search_slice replay '<json>'
use std::alloc::{GlobalAlloc, Layout, System};
use std::sync::atomic::{AtomicIsize, Ordering};

struct Counting;
static LIVE: AtomicIsize = AtomicIsize::new(0);
unsafe impl GlobalAlloc for Counting {
    unsafe fn alloc(&self, l: Layout) -> *mut u8 { LIVE.fetch_add(l.size() as isize, Ordering::SeqCst); System.alloc(l) }
    unsafe fn dealloc(&self, p: *mut u8, l: Layout) { LIVE.fetch_sub(l.size() as isize, Ordering::SeqCst); System.dealloc(p, l) }
}
#[global_allocator]
static A: Counting = Counting;

macro_rules! case { ($n:expr, $l:expr) => {{
    let v: Vec<i16> = (0..$l as i16).collect();
    let b = v.into_boxed_slice();
    let p0 = b.as_ptr() as usize;
    let before = LIVE.load(Ordering::SeqCst);
    let r: Option<Box<[[i16; $n]]>> = dasp_slice::to_boxed_frame_slice(b);
    let ok = r.is_some();
    let same_ptr = r.as_ref().map(|f| $l == 0 || f.as_ptr() as usize == p0).unwrap_or(true);
    drop(r);
    let after = LIVE.load(Ordering::SeqCst);
    // everything that was live for this box must have been released (on success AND on failure)
    (ok, same_ptr, before - after, ($l * 2) as isize)
}}; }

fn run(n: usize, l: usize) -> (String, String) {
    let (ok, same, freed, size) = match n {
        1 => case!(1, l), 2 => case!(2, l), 3 => case!(3, l), 4 => case!(4, l), 5 => case!(5, l), _ => case!(32, l),
    };
    (format!("{:?}", (ok, same, freed)), format!("{:?}", (l % n == 0, true, size)))
}

fn field<'a>(js: &'a str, k: &str) -> &'a str {
    let pat = format!("\"{}\":", k);
    let i = js.find(&pat).expect("field") + pat.len();
    let rest = js[i..].trim_start();
    if rest.starts_with('"') { let e = rest[1..].find('"').unwrap(); &rest[1..1 + e] }
    else { let e = rest.find(|c: char| c == ',' || c == '}').unwrap(); rest[..e].trim() }
}

/// in-place two-slice operations on [i16; 2] frames of length l: (got, want) as strings; want = element-wise frame operation
fn run_inplace(op: &str, l: usize) -> (String, String) {
    use dasp_frame::Frame;
    let a0: Vec<[i16; 2]> = (0..l).map(|i| [(i as i16) * 3 - 50, 7 - (i as i16)]).collect();
    let b: Vec<[i16; 2]> = (0..l).map(|i| [100 + i as i16, -(i as i16) * 2]).collect();
    let mut a = a0.clone();
    let want: Vec<[i16; 2]> = match op {
        "write" => b.clone(),
        "add_in_place" => (0..l).map(|i| a0[i].add_amp(b[i])).collect(),
        _ => (0..l).map(|i| [a0[i][0].wrapping_sub(b[i][1]), a0[i][1] ^ b[i][0]]).collect(),
    };
    match op {
        "write" => dasp_slice::write(&mut a[..], &b[..]),
        "add_in_place" => dasp_slice::add_in_place(&mut a[..], &b[..]),
        _ => dasp_slice::zip_map_in_place(&mut a[..], &b[..], |x: [i16; 2], y: [i16; 2]| [x[0].wrapping_sub(y[1]), x[1] ^ y[0]]),
    }
    // add_in_place on [i32; 2] frames whose values need more than 24 significant bits (exact integer addition required)
    if op == "add_in_place" {
        let a32: Vec<[i32; 2]> = (0..l).map(|i| [16_777_217 + i as i32 * 5, -1_000_000_007 + i as i32]).collect();
        let b32: Vec<[i32; 2]> = (0..l).map(|i| [33_554_433 + i as i32, 123_456_789 - i as i32 * 3]).collect();
        let mut x = a32.clone();
        dasp_slice::add_in_place(&mut x[..], &b32[..]);
        let w: Vec<[i32; 2]> = (0..l).map(|i| [a32[i][0] + b32[i][0], a32[i][1] + b32[i][1]]).collect();
        return (format!("{:?} {:?}", a, x), format!("{:?} {:?}", want, w));
    }
    (format!("{:?}", a), format!("{:?}", want))
}

fn main() {
    let args: Vec<String> = std::env::args().collect();
    if args.len() >= 3 && args[1] == "replay" && args[2].contains("\"inplace\"") {
        let op = field(&args[2], "op").to_string();
        let l: usize = field(&args[2], "l").parse().unwrap();
        let (g, w) = run_inplace(&op, l);
        println!("replay dasp_slice::{} on two slices of {} [i16; 2] frames", op, l);
        println!("  real code    : {}", g);
        println!("  element-wise : {}", w);
        if g != w { println!("  => DISAGREE (violation reproduces on the real code)"); std::process::exit(1); }
        println!("  => agree");
        return;
    }
    if args.len() >= 3 && args[1] == "search" && ["zip_map_in_place_unchecked", "zip_map_in_place", "write", "add_in_place"].contains(&args[2].as_str()) {
        let mut evals = 0; let mut found = 0;
        for op in ["zip", "write", "add_in_place"] {
            for l in 0..=70usize {
                evals += 1;
                let (g, w) = run_inplace(op, l);
                if g != w && found < 1 {
                    println!("WITNESS {{\"target\":\"inplace\",\"op\":\"{}\",\"l\":{},\"got\":{:?},\"want\":{:?}}}", op, l, g, w);
                    found += 1;
                }
            }
        }
        println!("SEARCHED {} cases, {} witnesses", evals, found);
        return;
    }
    if args.len() >= 3 && args[1] == "replay" {
        let n: usize = field(&args[2], "n").parse().unwrap();
        let l: usize = field(&args[2], "l").parse().unwrap();
        let (g, w) = run(n, l);
        println!("replay to_boxed_frame_slice::<[i16; {}]> on a boxed slice of {} samples", n, l);
        println!("  real code : (is_some, same allocation, bytes released) = {}", g);
        println!("  contract  : {}", w);
        if g != w { println!("  => DISAGREE (violation reproduces on the real code)"); std::process::exit(1); }
        println!("  => agree");
        return;
    }
    let mut evals = 0; let mut found = 0;
    for n in [1usize, 2, 3, 4, 5, 32] {
        for l in 0..=(2 * n + 1).min(70) {
            evals += 1;
            let (g, w) = run(n, l);
            if g != w && found < 2 {
                println!("WITNESS {{\"target\":\"boxed\",\"n\":{},\"l\":{},\"got\":{:?},\"want\":{:?}}}", n, l, g, w);
                found += 1;
            }
        }
    }
    println!("SEARCHED {} cases, {} witnesses", evals, found);
}
