//! Paired witness search / replay for the Verus units about dasp_signal (C04, C05, C12, C14, C08).
//! Runs the REAL adaptors on instrumented counting sources and compares with the pointwise
//! reading of the contracts.  It only finds inputs; it never decides a property.
//!
//!   search_signal search <target|all> <seed>
//!   search_signal replay '<json witness>'
use dasp_frame::Frame;
use dasp_ring_buffer as ring_buffer;
use dasp_sample::Sample;
use dasp_signal::{self as signal, Signal};
use std::alloc::{GlobalAlloc, Layout, System};
use std::sync::atomic::{AtomicUsize, Ordering};
use std::cell::Cell;

/// counting allocator: lets the bus search observe heap growth (the backlog is private)
struct Counting;
static ALLOCS: AtomicUsize = AtomicUsize::new(0);
unsafe impl GlobalAlloc for Counting {
    unsafe fn alloc(&self, l: Layout) -> *mut u8 { ALLOCS.fetch_add(1, Ordering::SeqCst); System.alloc(l) }
    unsafe fn dealloc(&self, p: *mut u8, l: Layout) { System.dealloc(p, l) }
    unsafe fn realloc(&self, p: *mut u8, l: Layout, n: usize) -> *mut u8 { ALLOCS.fetch_add(1, Ordering::SeqCst); System.realloc(p, l, n) }
}
#[global_allocator]
static GLOBAL: Counting = Counting;
use std::panic;
use std::rc::Rc;

type F2 = [i16; 2];

/// instrumented source: yields data[pos] (equilibrium afterwards), counts pulls
#[derive(Clone)]
struct Src<F: Frame> {
    data: Vec<F>,
    pos: usize,
    pulls: Rc<Cell<usize>>,
}
impl<F: Frame> Signal for Src<F> {
    type Frame = F;
    fn next(&mut self) -> F {
        self.pulls.set(self.pulls.get() + 1);
        let r = if self.pos < self.data.len() { self.data[self.pos] } else { F::EQUILIBRIUM };
        self.pos += 1;
        r
    }
    fn is_exhausted(&self) -> bool { self.pos >= self.data.len() }
}
fn src<F: Frame>(data: Vec<F>) -> (Src<F>, Rc<Cell<usize>>) {
    let c = Rc::new(Cell::new(0));
    (Src { data, pos: 0, pulls: c.clone() }, c)
}

struct Rng(u64);
impl Rng {
    fn next(&mut self) -> u64 { self.0 ^= self.0 << 13; self.0 ^= self.0 >> 7; self.0 ^= self.0 << 17; self.0 }
    fn i16(&mut self) -> i16 {
        match self.next() % 6 { 0 => 0, 1 => i16::MAX / 2, 2 => i16::MIN / 2, 3 => 1, 4 => -1, _ => (self.next() % 20000) as i16 - 10000 }
    }
    fn frames(&mut self, n: usize) -> Vec<F2> { (0..n).map(|_| [self.i16() / 2, self.i16() / 2]).collect() }
}

fn at<F: Frame>(v: &[F], i: usize) -> F { if i < v.len() { v[i] } else { F::EQUILIBRIUM } }

/// one case = (target, seed, len).  returns (got, want) strings
fn run_case(target: &str, seed: u64, len: usize) -> (String, String) {
    let mut rng = Rng(seed.wrapping_mul(0x9E3779B97F4A7C15) | 1);
    let a = rng.frames(len);
    let blen = (len + (seed as usize % 3)).saturating_sub(1);
    let b = rng.frames(blen);
    let steps = len + 3;
    let mut got: Vec<String> = vec![];
    let mut want: Vec<String> = vec![];
    macro_rules! rec { ($g:expr, $w:expr) => {{ got.push(format!("{:?}", $g)); want.push(format!("{:?}", $w)); }}; }
    match target {
        "AddAmp::next" | "AddAmp::is_exhausted" | "Signal::add_amp" => {
            let (sa, ca) = src(a.clone()); let (sb, cb) = src(b.clone());
            let mut s = sa.add_amp(sb);
            rec!((ca.get(), cb.get()), (0, 0));
            for i in 0..steps {
                rec!(s.is_exhausted(), i >= a.len() || i >= b.len());
                rec!(s.next(), at(&a, i).add_amp(at(&b, i)));
                rec!((ca.get(), cb.get()), (i + 1, i + 1));
            }
        }
        "MulAmp::next" | "MulAmp::is_exhausted" | "Signal::mul_amp" => {
            let g: Vec<[f32; 2]> = b.iter().map(|f| [f[0] as f32 / 16384.0, f[1] as f32 / 16384.0]).collect();
            let (sa, ca) = src(a.clone()); let (sb, cb) = src(g.clone());
            let mut s = sa.mul_amp(sb);
            for i in 0..steps {
                rec!(s.is_exhausted(), i >= a.len() || i >= g.len());
                rec!(s.next(), at(&a, i).mul_amp(at(&g, i)));
                rec!((ca.get(), cb.get()), (i + 1, i + 1));
            }
        }
        "ScaleAmp::next" | "ScaleAmp::is_exhausted" | "Signal::scale_amp" => {
            let (sa, ca) = src(a.clone());
            // (a gain of exactly 0 included: the source is pulled all the same)
            let amp = if seed % 4 == 3 { 0.0f32 } else { 0.5f32 + (seed % 3) as f32 * 0.25 };
            let mut s = sa.scale_amp(amp);
            for i in 0..steps {
                rec!(s.is_exhausted(), i >= a.len());
                rec!(s.next(), at(&a, i).scale_amp(amp));
                rec!(ca.get(), i + 1);
            }
        }
        "ScaleAmpPerChannel::next" | "ScaleAmpPerChannel::is_exhausted" | "Signal::scale_amp_per_channel" => {
            let (sa, ca) = src(a.clone());
            let amp = if seed % 4 == 3 { [0.0f32, 1.0] } else { [0.5f32, 0.25 + (seed % 3) as f32 * 0.25] };      // neutral / absorbing gains included
            let mut s = sa.scale_amp_per_channel(amp);
            for i in 0..steps {
                rec!(s.is_exhausted(), i >= a.len());
                rec!(s.next(), at(&a, i).mul_amp(amp));
                rec!(ca.get(), i + 1);
            }
            // three and four channels with a gain that repeats on some, not all, channels
            let v3: Vec<[i16; 3]> = (0..len).map(|i| [1000 + i as i16, -2000 + i as i16, 3000 - i as i16]).collect();
            let g3 = [0.5f32, 1.0, 0.5];
            let mut s = signal::from_iter(v3.clone()).scale_amp_per_channel(g3);
            for i in 0..len { rec!(s.next(), v3[i].mul_amp(g3)); }
            let v4: Vec<[i16; 4]> = (0..len).map(|i| [400 + i as i16, -800, 1600, -3200 + i as i16]).collect();
            let g4 = [0.25f32, 1.0, 1.0, 0.25];
            let mut s = signal::from_iter(v4.clone()).scale_amp_per_channel(g4);
            for i in 0..len { rec!(s.next(), v4[i].mul_amp(g4)); }
        }
        "OffsetAmp::next" | "OffsetAmp::is_exhausted" | "Signal::offset_amp" => {
            let (sa, ca) = src(a.clone());
            let off = if seed % 4 == 3 { 0 } else { (seed % 100) as i16 - 50 };      // a zero offset included
            let mut s = sa.offset_amp(off);
            for i in 0..steps {
                rec!(s.is_exhausted(), i >= a.len());
                rec!(s.next(), at(&a, i).offset_amp(off));
                rec!(ca.get(), i + 1);
            }
        }
        "OffsetAmpPerChannel::next" | "OffsetAmpPerChannel::is_exhausted" | "Signal::offset_amp_per_channel" => {
            {   // wide integer formats (more significant bits than their float companion holds): exact integer addition required
                let v32: Vec<[i32; 2]> = (0..len).map(|i| [16_777_217 + i as i32 * 3, -1_234_567_891 + i as i32]).collect();
                let o32 = [1_000_000_007i32, 5];
                let mut s = signal::from_iter(v32.clone()).offset_amp_per_channel(o32);
                for i in 0..len { rec!(s.next(), [v32[i][0] + o32[0], v32[i][1] + o32[1]]); }
                let v64: Vec<[u64; 1]> = (0..len).map(|i| [(1u64 << 63) + (1u64 << 60) + 12_345 + i as u64]).collect();
                let mut s = signal::from_iter(v64.clone()).offset_amp_per_channel([3i64]);
                for i in 0..len { rec!(s.next(), [v64[i][0] + 3]); }
                let mut s = signal::from_iter(v64.clone()).offset_amp(-7i64);
                for i in 0..len { rec!(s.next(), [v64[i][0] - 7]); }
                let mut s = signal::from_iter(v32.clone()).add_amp(signal::from_iter(v32.iter().map(|_| [1i32, -1]).collect::<Vec<_>>()));
                for i in 0..len { rec!(s.next(), [v32[i][0] + 1, v32[i][1] - 1]); }
            }
            let (sa, ca) = src(a.clone());
            let off = if seed % 4 == 3 { [0, 0] } else { [(seed % 100) as i16 - 50, 7] };
            let mut s = sa.offset_amp_per_channel(off);
            for i in 0..steps {
                rec!(s.is_exhausted(), i >= a.len());
                rec!(s.next(), at(&a, i).add_amp(off));
                rec!(ca.get(), i + 1);
            }
        }
        "Map::next" | "Map::is_exhausted" | "Signal::map" => {
            let (sa, ca) = src(a.clone());
            let calls = Rc::new(Cell::new(0usize)); let c2 = calls.clone();
            let mut s = sa.map(move |f: F2| { c2.set(c2.get() + 1); [f[1], f[0].wrapping_add(1)] });
            for i in 0..steps {
                rec!(s.is_exhausted(), i >= a.len());
                let f = at(&a, i);
                rec!(s.next(), [f[1], f[0].wrapping_add(1)]);
                rec!((ca.get(), calls.get()), (i + 1, i + 1));
            }
        }
        "ZipMap::next" | "ZipMap::is_exhausted" | "Signal::zip_map" => {
            let (sa, ca) = src(a.clone()); let (sb, cb) = src(b.clone());
            let mut s = sa.zip_map(sb, |x: F2, y: F2| [x[0].wrapping_sub(y[1]), y[0]]);
            for i in 0..steps {
                rec!(s.is_exhausted(), i >= a.len() || i >= b.len());
                let (x, y) = (at(&a, i), at(&b, i));
                rec!(s.next(), [x[0].wrapping_sub(y[1]), y[0]]);
                rec!((ca.get(), cb.get()), (i + 1, i + 1));
            }
        }
        "Inspect::next" | "Inspect::is_exhausted" | "Signal::inspect" => {
            let (sa, ca) = src(a.clone());
            let seen = Rc::new(Cell::new((0usize, [0i16; 2]))); let s2 = seen.clone();
            let mut s = sa.inspect(move |f: &F2| s2.set((s2.get().0 + 1, *f)));
            for i in 0..steps {
                rec!(s.is_exhausted(), i >= a.len());
                rec!(s.next(), at(&a, i));
                rec!((ca.get(), seen.get()), (i + 1, (i + 1, at(&a, i))));
            }
        }
        "ClipAmp::next" | "ClipAmp::is_exhausted" | "Signal::clip_amp" => {
            let (sa, ca) = src(a.clone());
            let t = 100 + (seed % 5000) as i16;
            let mut s = sa.clip_amp(t);
            for i in 0..steps {
                rec!(s.is_exhausted(), i >= a.len());
                let f = at(&a, i);
                rec!(s.next(), [f[0].max(-t).min(t), f[1].max(-t).min(t)]);
                rec!(ca.get(), i + 1);
            }
            // unsigned format: limits the SIGNED amplitude about equilibrium
            let u: Vec<[u8; 1]> = a.iter().map(|f| [(f[0] >> 8) as i8 as u8 ^ 0x80]).collect();
            let (su, _) = src(u.clone());
            let tu = 10 + (seed % 100) as i8;
            let mut s = su.clip_amp(tu);
            for i in 0..steps {
                let x = at(&u, i)[0] as i16 - 128;
                let c = x.max(-(tu as i16)).min(tu as i16);
                rec!(s.next(), [(c + 128) as u8]);
            }
        }
        "Delay::next" | "Delay::is_exhausted" | "Signal::delay" => {
            let k = (seed % 4) as usize;
            let (sa, ca) = src(a.clone());
            let mut s = sa.delay(k);
            for i in 0..(steps + k) {
                rec!(s.is_exhausted(), i >= k && i - k >= a.len());
                rec!(s.next(), if i < k { F2::EQUILIBRIUM } else { at(&a, i - k) });
                rec!(ca.get(), if i < k { 0 } else { i - k + 1 });
            }
            // unsigned formats: equilibrium is mid-scale, not the all-zero bit pattern; also over an exhausted source
            let au: Vec<[u8; 2]> = a.iter().map(|f| [(f[0] as u16 >> 8) as u8, (f[1] as u16 >> 8) as u8]).collect();
            let (su, cu) = src(au.clone());
            let mut s = su.delay(k);
            for i in 0..(steps + k) {
                rec!(s.is_exhausted(), i >= k && i - k >= au.len());
                rec!(s.next(), if i < k { [128u8, 128] } else { at(&au, i - k) });
                rec!(cu.get(), if i < k { 0 } else { i - k + 1 });
            }
            let mut s = signal::from_iter(Vec::<[u16; 1]>::new()).delay(k + 1);
            for i in 0..(k + 3) { rec!(s.is_exhausted(), i >= k + 1); rec!(s.next(), [32768u16]); }
        }
        "RefMut::next" | "RefMut::is_exhausted" | "Signal::by_ref" => {
            let (mut sa, ca) = src(a.clone());
            let k = (seed % 3) as usize;
            {
                let mut r = sa.by_ref().offset_amp(1);
                for i in 0..k { rec!(r.is_exhausted(), i >= a.len()); rec!(r.next(), at(&a, i).offset_amp(1)); }
            }
            // resumes exactly where the adaptor left off
            rec!(ca.get(), k);
            for i in k..steps { rec!(sa.is_exhausted(), i >= a.len()); rec!(sa.next(), at(&a, i)); }
        }
        "FromIterator::next" | "FromIterator::is_exhausted" | "from_iter" => {
            // a NON-FUSED iterator (legal for Iterator): yields a, None, then more items: after the first None the signal
            // must stay exhausted and silent and must never poll the iterator again
            {
                let polls = Rc::new(Cell::new(0usize)); let p3 = polls.clone();
                let items: Vec<Option<F2>> = a.iter().map(|f| Some(*f)).chain(std::iter::once(None)).chain(b.iter().map(|f| Some(*f))).collect();
                let mut k = 0usize;
                let it = std::iter::from_fn(move || { p3.set(p3.get() + 1); let r = if k < items.len() { items[k] } else { Some([7, 7]) }; k += 1; r });
                let mut s = signal::from_iter(it);
                for i in 0..(a.len() + 4) {
                    rec!(s.is_exhausted(), i >= a.len());
                    rec!(s.next(), at(&a, i));
                    rec!(polls.get(), (i + 2).min(a.len() + 1));
                }
            }
            {   // inexact size_hint (lower bound 0): same frames required
                let mut s = signal::from_iter(a.clone().into_iter().filter(|_| true));
                for i in 0..steps { rec!(s.is_exhausted(), i >= a.len()); rec!(s.next(), at(&a, i)); }
            }
            {   // unsigned format: equilibrium (mid-scale) forever after the end
                let v: Vec<[u8; 1]> = (0..len).map(|i| [i as u8]).collect();
                let mut s = signal::from_iter(v.clone());
                for i in 0..(len + 3) { rec!(s.next(), if i < len { v[i] } else { [128u8] }); }
                let sv: Vec<u16> = (0..(2 * len + 1)).map(|i| i as u16).collect();
                let mut s = signal::from_interleaved_samples_iter::<_, [u16; 2]>(sv.clone());
                for i in 0..(len + 3) { rec!(s.next(), if i < len { [sv[2 * i], sv[2 * i + 1]] } else { [32768u16, 32768] }); }
            }
            let pulled = Rc::new(Cell::new(0usize)); let p2 = pulled.clone();
            let it = a.clone().into_iter().inspect(move |_| p2.set(p2.get() + 1));
            let mut s = signal::from_iter(it);
            for i in 0..steps {
                rec!(s.is_exhausted(), i >= a.len());
                rec!(s.next(), at(&a, i));
                rec!(pulled.get(), (i + 2).min(a.len()));
            }
        }
        "FromInterleavedSamplesIterator::next" | "FromInterleavedSamplesIterator::is_exhausted" | "from_interleaved_samples_iter" => {
            // len samples into 2- and 3-channel frames: trailing partial frame dropped
            let samples: Vec<i16> = (0..len).map(|_| rng.i16()).collect();
            let pulled = Rc::new(Cell::new(0usize)); let p2 = pulled.clone();
            let it = samples.clone().into_iter().inspect(move |_| p2.set(p2.get() + 1));
            let mut s = signal::from_interleaved_samples_iter::<_, [i16; 3]>(it);
            let nf = len / 3;
            for i in 0..(nf + 3) {
                rec!(s.is_exhausted(), i >= nf);
                let w = if i < nf { [samples[3 * i], samples[3 * i + 1], samples[3 * i + 2]] } else { [0; 3] };
                rec!(s.next(), w);
                rec!(pulled.get() <= len, true);
            }
            let mut s = signal::from_interleaved_samples_iter::<_, F2>(samples.clone().into_iter());
            let nf = len / 2;
            for i in 0..(nf + 2) {
                rec!(s.is_exhausted(), i >= nf);
                rec!(s.next(), if i < nf { [samples[2 * i], samples[2 * i + 1]] } else { [0; 2] });
            }
            // iterators whose size_hint is inexact (lower bound 0 / no upper bound): legal for Iterator, same frames required
            let mut s = signal::from_interleaved_samples_iter::<_, F2>(samples.clone().into_iter().filter(|_| true));
            for i in 0..(nf + 2) {
                rec!(s.is_exhausted(), i >= nf);
                rec!(s.next(), if i < nf { [samples[2 * i], samples[2 * i + 1]] } else { [0; 2] });
            }
            let sv = samples.clone(); let mut k = 0usize;
            let mut s = signal::from_interleaved_samples_iter::<_, F2>(std::iter::from_fn(move || { let r = sv.get(k).cloned(); k += 1; r }));
            for i in 0..(nf + 2) {
                rec!(s.is_exhausted(), i >= nf);
                rec!(s.next(), if i < nf { [samples[2 * i], samples[2 * i + 1]] } else { [0; 2] });
            }
        }
        "UntilExhausted::next" | "Signal::until_exhausted" | "lift" => {
            let (sa, ca) = src(a.clone()); let (sb, _cb) = src(b.clone());
            let mut it = sa.add_amp(sb).until_exhausted();
            let n = a.len().min(b.len());
            for i in 0..(n + 3) {
                rec!(it.next(), if i < n { Some(at(&a, i).add_amp(at(&b, i))) } else { None });
                rec!(ca.get(), (i + 1).min(n));
            }
            let v: Vec<F2> = signal::lift(a.clone(), |s| s.offset_amp(2)).collect();
            rec!(v, a.iter().map(|f| f.offset_amp(2)).collect::<Vec<_>>());
            // delay stays live while emitting its silence
            let (sd, _) = src(a.clone());
            let k = 2usize;
            rec!(sd.delay(k).until_exhausted().count(), a.len() + k);
        }
        "Take::next" | "Take::size_hint" | "Take::len" | "Signal::take" => {
            let n = (seed % 5) as usize;
            let (sa, ca) = src(a.clone());
            let mut it = sa.take(n);
            for i in 0..(n + 2) {
                rec!(it.size_hint(), (n.saturating_sub(i), Some(n.saturating_sub(i))));
                rec!(it.len(), n.saturating_sub(i));
                rec!(it.next(), if i < n { Some(at(&a, i)) } else { None });
                rec!(ca.get(), (i + 1).min(n));
            }
        }
        "IntoInterleavedSamples::next_sample" | "Signal::into_interleaved_samples" => {
            let (sa, ca) = src(a.clone());
            let mut s = sa.into_interleaved_samples();
            for i in 0..(2 * a.len() + 3) {
                let w = if i < 2 * a.len() { Some(a[i / 2][i % 2]) } else { None };
                rec!(s.next_sample(), w);
                rec!(ca.get(), (i / 2 + 1).min(a.len()));
            }
            let (sa, _) = src(a.clone());
            rec!(sa.into_interleaved_samples().into_iter().count(), 2 * a.len());
            // an already exhausted signal yields no sample at all (empty source; drained borrowed source)
            rec!(signal::from_iter(Vec::<F2>::new()).into_interleaved_samples().next_sample(), None::<i16>);
            rec!(signal::from_interleaved_samples_iter::<_, [i32; 3]>(vec![1i32, 2]).into_interleaved_samples().into_iter().count(), 0usize);
            {
                let (mut sd, _) = src(a.clone());
                for _ in 0..a.len() { let _ = sd.next(); }
                rec!(sd.by_ref().into_interleaved_samples().into_iter().count(), 0usize);
            }
            // into_iter in the MIDDLE of a frame: the iterator continues exactly where next_sample left off
            for k in 0..(2 * a.len() + 1).min(5) {
                let (sa, _) = src(a.clone());
                let mut s = sa.into_interleaved_samples();
                for i in 0..k { rec!(s.next_sample(), Some(a[i / 2][i % 2])); }
                let cl = s.clone();           // a clone taken mid-frame keeps the frame in progress
                let rest: Vec<i16> = s.into_iter().collect();
                let want: Vec<i16> = (k..2 * a.len()).map(|i| a[i / 2][i % 2]).collect();
                rec!(rest, want.clone());
                rec!(cl.into_iter().collect::<Vec<i16>>(), want);
            }
        }
        "Buffered::next" | "Buffered::is_exhausted" | "Signal::buffered" | "Buffered::next_frames" | "BufferedFrames::next" | "Buffered::into_parts" => {
            // any capacity, any valid (start, len) pre-fill
            let cap = 1 + (seed % 4) as usize;
            let start = (seed / 4 % cap as u64) as usize;
            let plen = (seed / 16 % (cap as u64 + 1)) as usize;
            let storage: Vec<F2> = (0..cap).map(|i| [1000 + i as i16, -(1000 + i as i16)]).collect();
            let prefill: Vec<F2> = (0..plen).map(|i| storage[(start + i) % cap]).collect();
            let mut ideal: Vec<F2> = prefill.clone();
            ideal.extend(a.iter().cloned());
            let batches = target == "Buffered::next_frames" || target == "BufferedFrames::next";
            let (sa, ca) = src(a.clone());
            let rb = ring_buffer::Bounded::from_raw_parts(start, plen, storage.clone());
            let mut s = sa.buffered(rb);
            rec!(ca.get(), 0);
            let mut delivered = 0usize;   // frames delivered so far
            let mut pulled = 0usize;      // source frames pulled so far (model)
            let mut pending = plen;       // frames waiting in the buffer (model)
            for step in 0..(ideal.len() + 2 * cap + 2) {
                rec!(s.is_exhausted(), pending == 0 && pulled >= a.len());
                if batches && step % 3 == 0 {
                    if pending == 0 { pulled += cap; pending = cap; }
                    let take = 1 + (seed as usize + step) % (pending.max(1));
                    let g: Vec<F2> = s.next_frames().take(take).collect();
                    let n = take.min(pending);
                    let w: Vec<F2> = (0..n).map(|k| at(&ideal, delivered + k)).collect();
                    delivered += n; pending -= n;
                    rec!(g, w);
                } else {
                    if pending == 0 { pulled += cap; pending = cap; }
                    rec!(s.next(), at(&ideal, delivered));
                    delivered += 1; pending -= 1;
                }
                rec!(ca.get(), pulled);
            }
            let (_sig, rb2) = s.into_parts();
            rec!(rb2.len(), pending);
        }
        t if t.starts_with("Branch") || t == "Signal::fork" => {
            // a pseudo-random interleaving of A/B pulls whose lead never exceeds the capacity
            let cap = 1 + (seed % 3) as usize;
            let total = len + 6;
            let data: Vec<F2> = (0..total).map(|i| [i as i16 + 1, -(i as i16) - 1]).collect();
            let (sa, ca) = src(data.clone());
            // (an EMPTY queue whose read position is not 0 — a recycled buffer — on odd seeds; stale slot contents non-zero)
            let rb = if seed % 2 == 1 { ring_buffer::Bounded::from_raw_parts((seed as usize / 2) % cap, 0, vec![[77i16; 2]; cap]) } else { ring_buffer::Bounded::from(vec![[0i16; 2]; cap]) };
            let rc = t.contains("Rc");
            let (mut pa, mut pb) = (0usize, 0usize);
            let mut sched: Vec<bool> = vec![];
            for _ in 0..(2 * len + 4) {
                let want_a = rng.next() % 2 == 0;
                let a_ok = pa + 1 <= pb + cap; let b_ok = pb + 1 <= pa + cap;
                let pick_a = if want_a { a_ok } else { !b_ok };
                sched.push(pick_a);
                if pick_a { pa += 1 } else { pb += 1 }
            }
            let (mut pa, mut pb) = (0usize, 0usize);
            macro_rules! drive { ($a:ident, $b:ident) => {{
                for &pick_a in sched.iter() {
                    rec!(($a.pending_frames(), $b.pending_frames()), (pa.max(pb) - pa, pa.max(pb) - pb));
                    if pick_a { rec!($a.next(), at(&data, pa)); pa += 1; } else { rec!($b.next(), at(&data, pb)); pb += 1; }
                    rec!(ca.get(), pa.max(pb));
                }
            }}; }
            if rc {
                // first use through by_ref (leaving one branch ahead), then RE-SPLIT with by_rc
                let mut fork = sa.fork(rb);
                {
                    let (mut a, mut b) = fork.by_ref();
                    let pre = (seed % 3) as usize;
                    for i in 0..pre.min(cap) {
                        if seed % 2 == 0 { rec!(b.next(), at(&data, pb)); pb += 1; } else { rec!(a.next(), at(&data, pa)); pa += 1; }
                        let _ = i;
                    }
                }
                // re-plan the schedule from the current positions
                let (mut qa, mut qb) = (pa, pb);
                for s_ in sched.iter_mut() {
                    let a_ok = qa + 1 <= qb + cap; let b_ok = qb + 1 <= qa + cap;
                    let pick_a = if *s_ { a_ok } else { !b_ok };
                    *s_ = pick_a;
                    if pick_a { qa += 1 } else { qb += 1 }
                }
                let (mut a, mut b) = fork.by_rc();
                drive!(a, b);
            } else {
                let mut fork = sa.fork(rb);
                {
                    let (mut a, mut b) = fork.by_ref();
                    drive!(a, b);
                }
                // re-split after earlier use
                let (mut a, mut b) = fork.by_ref();
                let k = sched.len();
                for i in 0..k.min(4) {
                    let pick_a = if sched[i] { pa + 1 <= pb + cap } else { !(pb + 1 <= pa + cap) };
                    rec!((a.pending_frames(), b.pending_frames()), (pa.max(pb) - pa, pa.max(pb) - pb));
                    if pick_a { rec!(a.next(), at(&data, pa)); pa += 1; } else { rec!(b.next(), at(&data, pb)); pb += 1; }
                    rec!(ca.get(), pa.max(pb));
                }
            }
        }
        t if t.starts_with("Converter::") || t.starts_with("MulHz::") || t.starts_with("Floor::") || t.starts_with("Linear::") => {
            use dasp_interpolate::{floor::Floor, linear::Linear, Interpolator};
            // dyadic ratios: the f64 accumulator is exact, so floor(P_n) can be compared exactly
            let ratios = [0.25f64, 0.5, 0.75, 1.0, 1.5, 2.0, 3.0, 0.125];
            let r0 = ratios[(seed % 8) as usize];
            let varying = t.starts_with("MulHz::");
            let data: Vec<[f64; 1]> = (0..len + 2).map(|i| [((i as f64) * 0.0625) - 0.25 + (seed % 5) as f64 * 0.03125]).collect();
            let n_out = 2 * len + 6;
            let rs: Vec<f64> = (0..n_out).map(|k| if varying { ratios[((seed as usize) + 3 * k) % 8] } else { r0 }).collect();
            let linear = seed % 2 == 1 || t.starts_with("Linear::");
            // priming: floor takes 1 frame, linear takes 2
            let prime = if linear { 2 } else { 1 };
            let (mut sa, ca) = src(data.clone());
            let at1 = |i: usize| -> f64 { if i < data.len() { data[i][0] } else { 0.0 } };
            macro_rules! run_conv { ($interp:expr) => {{
                let interp = $interp;
                if varying {
                    let ctl = signal::from_iter(rs.clone().into_iter());
                    let mut conv = sa.mul_hz(interp, ctl);
                    let mut p = 0.0f64;
                    for k in 0..n_out {
                        // with mul_hz the ratio for output k is set BEFORE the frame is produced; P_k sums the ratios of earlier outputs
                        let fl = p.floor() as usize;
                        let x = p - p.floor();
                        let w = if linear { at1(fl) + (at1(fl + 1) - at1(fl)) * x } else { at1(fl) };
                        rec!(conv.is_exhausted(), ca.get() >= data.len() && (p - ((ca.get() - prime) as f64)) >= 1.0);
                        rec!(conv.next()[0], w);
                        rec!(ca.get(), prime + fl);
                        p += rs[k];
                    }
                } else {
                    let mut conv = sa.scale_hz(interp, r0);
                    let mut p = 0.0f64;
                    let mut r0 = r0;
                    for _k in 0..n_out {
                        // the ratio setters mid-stream: each SETS the ratio (1/scale, scale, source/target) for subsequent outputs
                        if _k == 3 { conv.set_sample_hz_scale(2.0); r0 = 0.5; }
                        if _k == 5 { conv.set_playback_hz_scale(1.5); r0 = 1.5; }
                        if _k == 7 { conv.set_hz_to_hz(3.0, 4.0); r0 = 0.75; }
                        if _k == 9 { conv.set_sample_hz_scale(0.25); r0 = 4.0; }
                        let fl = p.floor() as usize;
                        let x = p - p.floor();
                        rec!(conv.is_exhausted(), ca.get() >= data.len() && (p - ((ca.get() - prime) as f64)) >= 1.0);
                        let w = if linear { at1(fl) + (at1(fl + 1) - at1(fl)) * x } else { at1(fl) };
                        rec!(conv.next()[0], w);
                        rec!(ca.get(), prime + fl);
                        p += r0;
                    }
                }
            }}; }
            if t.starts_with("Linear::") {
                // integer formats: exact at x == 0, within one LSB of the straight line and between the frames at x = k/8
                let vals: [i32; 6] = [1_234_567_891, 16_777_217, -1_000_000_007, i32::MAX, i32::MIN, (rng.next() % 4_000_000_000) as i64 as i32];
                let l = vals[(seed % 6) as usize]; let r = vals[((seed / 6) % 6) as usize];
                for k in 0..8i128 {
                    let o = Linear::new([l], [r]).interpolate(k as f64 / 8.0)[0];
                    let d = 8 * (o as i128) - (8 * (l as i128) + (r as i128 - l as i128) * k);
                    rec!(d > -8 && d < 8, true);
                    rec!(o >= l.min(r) && o <= l.max(r), true);
                    if k == 0 { rec!(o, l); }
                }
                let lu = (l as u32) ^ 0x8000_0000; let ru = (r as u32) ^ 0x8000_0000;
                rec!(Linear::new([lu], [ru]).interpolate(0.0)[0], lu);
                let mut li = Linear::new([l], [r]);
                li.next_source_frame([7]);
                rec!(li.interpolate(0.0)[0], r);
                li.reset();
                rec!(li.interpolate(0.5)[0], 0);
            }
            if linear {
                let a0 = sa.next(); let b0 = sa.next();
                let mut li = Linear::new(a0, b0);
                // reset / feed behave as specified
                let mut probe = Linear::new([1.0f64], [3.0]);
                rec!(probe.interpolate(0.25)[0], 1.5);
                probe.next_source_frame([5.0]);
                rec!(probe.interpolate(0.5)[0], 4.0);
                probe.reset();
                rec!(probe.interpolate(0.5)[0], 0.0);
                let _ = &mut li;
                run_conv!(li);
            } else {
                let a0 = sa.next();
                let mut probe = Floor::new([1.0f64]);
                rec!(probe.interpolate(0.75)[0], 1.0);
                probe.next_source_frame([5.0]);
                rec!(probe.interpolate(0.0)[0], 5.0);
                probe.reset();
                rec!(probe.interpolate(0.5)[0], 0.0);
                run_conv!(Floor::new(a0));
            }
        }
        "ConstHz::step" | "ConstHz::next" | "Hz::step" | "Phase::next" | "Phase::next_phase" | "Phase::next_phase_wrapped_to"
        | "Rate::const_hz" | "Rate::hz" | "Saw::next" | "Sine::next" | "Square::next" | "phase" | "rate" => {
            // float-level reading of C17: the step is the correctly rounded f64 quotient hz / rate, the phase starts at 0
            // and becomes (phase + step) % 1.0; saw/square/sine are functions of the yielded phase
            let rates = [4.0f64, 49.0, 44100.0, 3.0, 93.0, 48000.0, 0.5, 98.0];
            let rate = rates[(seed % 8) as usize];
            let n = len + 4;
            let hzs: Vec<f64> = (0..n).map(|k| match (seed as usize + k) % 7 {
                0 => rate, 1 => 0.0, 2 => rate * 2.5, 3 => 440.0, 4 => rate / 3.0, 5 => if seed % 3 == 0 { rate * 3.0e19 } else { 1.0e-3 }, _ => (rng.next() % 100000) as f64 / 7.0 }).collect();
            let hz0 = hzs[0];
            let var = seed % 2 == 0;
            macro_rules! drive { ($mk:expr, $f:expr) => {{
                let mut p = 0.0f64;
                if var {
                    let (ctl, cc) = src(hzs.clone());
                    let mut o = $mk(signal::rate(rate).hz(ctl).phase());
                    for k in 0..n {
                        let w: f64 = $f(p);
                        let g: f64 = o.next();
                        rec!((g - w).abs() <= 1e-12, true);
                        rec!(cc.get(), k + 1);
                        p = (p + hzs[k] / rate) % 1.0;
                    }
                } else {
                    let mut o = $mk(signal::rate(rate).const_hz(hz0).phase());
                    for _k in 0..n {
                        let w: f64 = $f(p);
                        let g: f64 = o.next();
                        rec!((g - w).abs() <= 1e-12, true);
                        p = (p + hz0 / rate) % 1.0;
                    }
                }
            }}; }
            // the phase itself: exact
            {
                let mut p = 0.0f64;
                if var {
                    let (ctl, cc) = src(hzs.clone());
                    let mut ph = signal::rate(rate).hz(ctl).phase();
                    for k in 0..n { rec!(ph.next_phase().to_bits(), p.to_bits()); rec!(cc.get(), k + 1); p = (p + hzs[k] / rate) % 1.0; rec!(p >= 0.0 && p < 1.0, true); }
                } else {
                    let mut ph = signal::rate(rate).const_hz(hz0).phase();
                    for _k in 0..n { rec!(ph.next_phase().to_bits(), p.to_bits()); p = (p + hz0 / rate) % 1.0; }
                }
            }
            drive!(|ph: signal::Phase<_>| ph.saw(), |p: f64| 1.0 - 2.0 * p);
            drive!(|ph: signal::Phase<_>| ph.square(), |p: f64| if p < 0.5 { 1.0 } else { -1.0 });
            drive!(|ph: signal::Phase<_>| ph.sine(), |p: f64| (2.0 * std::f64::consts::PI * p).sin());
        }
        "Detector::next" | "Detector::new" | "Detector::set_attack_frames" | "Detector::set_release_frames" => {
            use dasp_envelope::Detector;
            // stereo peak follower against the recurrence env' = d + g (env - d), g chosen PER CHANNEL (attack if env < d), with
            // attack / release changed mid-stream; a time of 0 frames gives gain 0 (envelope == detected value exactly)
            let g = |n: f32| -> f32 { if n == 0.0 { 0.0 } else { std::f32::consts::E.powf(-1.0 / n) } };
            let times = [0.0f32, 1.0, 3.0, 7.0, 0.5];
            let (mut at, mut rt) = (times[(seed % 5) as usize], times[((seed / 5) % 5) as usize]);
            let mut det: Detector<[f32; 2], _> = Detector::peak(at, rt);
            let mut env = [0.0f32; 2];
            for k in 0..(len + 6) {
                if k == 3 { at = times[((seed / 3) % 5) as usize]; det.set_attack_frames(at); }
                if k == 5 { rt = times[((seed / 7) % 5) as usize]; det.set_release_frames(rt); }
                let x = [((rng.next() % 200) as f32 - 100.0) / 128.0, ((rng.next() % 200) as f32 - 100.0) / 128.0];
                let out = det.next(x);
                for c in 0..2 {
                    let d = x[c].abs();
                    let gain = if env[c] < d { g(at) } else { g(rt) };
                    let want = d + (env[c] - d) * gain;
                    rec!((out[c] - want).abs() <= 1e-6, true);
                    if gain == 0.0 { rec!(out[c], d); }
                    env[c] = out[c];
                }
            }
        }
        "Rectangle::window" | "Hann::window" => {
            use dasp_window::{Hann, Rectangle, Window as WF};
            // the rectangle window is 1 EVERYWHERE (whatever the phase, also outside [0, 1)), in every sample format
            for &p in &[0.0f64, 0.25, 0.5, 0.999, 1.0, -0.25, 2.0, 1.0e9, f64::INFINITY] {
                rec!(<Rectangle as WF<f64>>::window(p), 1.0f64);
                rec!(<Rectangle as WF<f32>>::window(p as f32), 1.0f32);
            }
            rec!(<Rectangle as WF<i16>>::window(-123), i16::MAX);
            // Hann: 0.5 (1 - cos(2 pi p)) within [0, 1], 0 at both ends, 1 at 0.5, symmetric
            for k in 0..=16 {
                let p = k as f64 / 16.0;
                let h = <Hann as WF<f64>>::window(p);
                rec!((h - 0.5 * (1.0 - (2.0 * std::f64::consts::PI * p).cos())).abs() < 1e-12 && h >= -1e-12 && h <= 1.0 + 1e-12, true);
                rec!((h - <Hann as WF<f64>>::window(1.0 - p)).abs() < 1e-12, true);
            }
            rec!(<Hann as WF<f64>>::window(0.5), 1.0f64);
        }
        "Window::new" | "Window::next" | "Windowed::next" => {
            use dasp_signal::window::{Window, Windower};
            // a window of n frames samples the phases i/(n-1) (n - 1 a power of two: exact), same value in every channel
            pub struct Probe;
            impl dasp_window::Window<f64> for Probe { type Output = f64; fn window(phase: f64) -> f64 { phase + 1.5 } }
            for &n in &[2usize, 3, 5, 9, 17] {
                let mut w: Window<[f64; 2], Probe> = Window::new(n);
                for i in 0..n {
                    let f = w.next().unwrap();
                    let p = (i as f64 / (n as f64 - 1.0)) % 1.0;
                    rec!((f[0], f[1]), (p + 1.5, p + 1.5));
                }
            }
            // lengths beyond 2^32 (lazy iterator: only the first frames are pulled): phases i/(n-1) within 1e-9
            for &n in &[(1usize << 32) + 3, (1usize << 32) + 1, (1usize << 40) + 7] {
                let mut w: Window<[f64; 1], Probe> = Window::new(n);
                for i in 0..4 {
                    let f = w.next().unwrap();
                    let p = i as f64 / (n as f64 - 1.0);
                    rec!((f[0] - (p + 1.5)).abs() < 1e-9, true);
                }
            }
            // hann window of n frames: 0 at both ends, symmetric, 1 in the middle (odd n)
            for &n in &[3usize, 5, 8, 9] {
                let v: Vec<[f64; 1]> = dasp_signal::window::hann::<[f64; 1]>(n).take(n).collect();
                rec!(v[0][0].abs() < 1e-12 && v[n - 1][0].abs() < 1e-12, true);
                for i in 0..n { rec!((v[i][0] - v[n - 1 - i][0]).abs() < 1e-12, true); }
                if n % 2 == 1 { rec!((v[n / 2][0] - 1.0).abs() < 1e-12, true); }
            }
            // chunk k holds frames k*h..k*h+b-1, each scaled by the window value of ITS position
            let l = 4 + (seed % 5) as usize;
            let data: Vec<[f64; 1]> = (0..l).map(|i| [0.25 + i as f64 * 0.125]).collect();
            for &(bin, hop) in &[(3usize, 1usize), (5, 2), (2, 3), (3, 3)] {
                let w: Windower<[f64; 1], Probe> = Windower::new(&data[..], bin, hop);
                let mut k = 0usize;
                for mut chunk in w {
                    for j in 0..bin {
                        let g = (j as f64 / (bin as f64 - 1.0)) % 1.0 + 1.5;
                        rec!(chunk.next().map(|f| f[0]), Some(data[k * hop + j][0] * g));
                    }
                    k += 1;
                }
                rec!(k, if l >= bin { (l - bin) / hop + 1 } else { 0 });
            }
        }
        "Windower::size_hint" | "Windower::next" => {
            use dasp_signal::window::Windower;
            let l = len + (seed % 6) as usize;
            let data: Vec<[f64; 1]> = (0..l).map(|i| [i as f64]).collect();
            for bin in 2..=(l + 1) {
                for hop in 1..=(l + 1) {
                    let w = Windower::rectangle(&data[..], bin, hop);
                    let (lo, hi) = w.size_hint();
                    let actual = w.count();
                    let closed = if l >= bin { (l - bin) / hop + 1 } else { 0 };
                    rec!((actual, lo <= actual, hi.map(|u| actual <= u).unwrap_or(true)), (closed, true, true));
                }
            }
        }
        t if t.starts_with("SharedNode::") => {
            use dasp_signal::bus::SignalBus;
            // pseudo-random sequences of send / next(output i) / drop(output i) against an ideal model:
            // model = positions of each live output in the common history, pulled = frames pulled so far
            let dlen = if seed % 2 == 0 { 64 } else { 2 + (seed % 5) as usize };      // short sources reach exhaustion
            let data: Vec<F2> = (0..dlen).map(|i| [i as i16 + 1, -(i as i16) - 1]).collect();
            let (sa, ca) = src(data.clone());
            let bus = sa.bus();
            let mut outs: Vec<Option<dasp_signal::bus::Output<Src<F2>>>> = vec![];
            let mut pos: Vec<usize> = vec![];
            let mut pulled = 0usize;
            let nops = 4 + 3 * len;
            for _ in 0..nops {
                let live: Vec<usize> = (0..outs.len()).filter(|&i| outs[i].is_some()).collect();
                let choice = rng.next() % 8;
                if live.is_empty() || (choice == 0 && outs.len() < 5) {
                    // a new output starts with the first frame nobody has pulled yet
                    outs.push(Some(bus.send())); pos.push(pulled);
                } else if choice == 1 {
                    let i = live[(rng.next() as usize) % live.len()];
                    outs[i] = None;
                } else {
                    let i = live[(rng.next() as usize) % live.len()];
                    let o = outs[i].as_mut().unwrap();
                    rec!(o.pending_frames(), pulled - pos[i]);
                    rec!(o.next(), at(&data, pos[i]));
                    pos[i] += 1;
                    if pos[i] > pulled { pulled = pos[i]; }
                    rec!(ca.get(), pulled);          // the source is pulled once per distinct frame
                }
                for (i, o) in outs.iter().enumerate() { if let Some(o) = o { rec!(o.pending_frames(), pulled - pos[i]); rec!(o.is_exhausted(), pulled - pos[i] == 0 && pulled >= data.len()); } }
            }
            // directed scenarios: several outputs at DISTINCT positions, one of them dropped (the unique slowest one, a middle
            // one, the leader), then every survivor is read on: it must receive exactly the frames it is still owed
            for variant in 0..3u64 {
                let (sb, cb) = src(data.clone());
                let bus2 = sb.bus();
                let n_out = 3 + ((seed + variant) % 3) as usize;
                let mut outs2: Vec<Option<dasp_signal::bus::Output<Src<F2>>>> = (0..n_out).map(|_| Some(bus2.send())).collect();
                let mut pos2: Vec<usize> = vec![0; n_out];
                let mut pulled2 = 0usize;
                // output i pulls 2 * (n_out - 1 - i) + (seed % 2) frames: strictly decreasing, the last one none or one
                for i in 0..n_out {
                    let cnt = 2 * (n_out - 1 - i) + if i + 1 < n_out { (seed % 2) as usize } else { 0 };
                    for _ in 0..cnt { rec!(outs2[i].as_mut().unwrap().next(), at(&data, pos2[i])); pos2[i] += 1; if pos2[i] > pulled2 { pulled2 = pos2[i]; } }
                }
                let victim = match variant { 0 => n_out - 1, 1 => n_out / 2, _ => 0 };
                // (the Bus handle may already be gone while its outputs live on: n_out = 3 with one drop leaves two outputs)
                let bus_keep = if seed % 3 == 0 { drop(bus2); None } else { Some(bus2) };
                outs2[victim] = None;
                for round in 0..4 {
                    // drop further outputs on the way (the current leader first, then the current laggard): whoever remains
                    // still receives exactly the frames it is owed
                    if round >= 1 {
                        let live: Vec<usize> = (0..n_out).filter(|&i| outs2[i].is_some()).collect();
                        if live.len() >= 2 {
                            let pick = if round % 2 == 1 { *live.iter().max_by_key(|&&i| pos2[i]).unwrap() } else { *live.iter().min_by_key(|&&i| pos2[i]).unwrap() };
                            outs2[pick] = None;
                        }
                    }
                    for i in 0..n_out {
                        if let Some(o) = outs2[i].as_mut() {
                            rec!(o.pending_frames(), pulled2 - pos2[i]);
                            rec!(o.next(), at(&data, pos2[i]));
                            pos2[i] += 1; if pos2[i] > pulled2 { pulled2 = pos2[i]; }
                            rec!(cb.get(), pulled2);
                        }
                    }
                }
            }
            // backlog retention: once every live output has caught up and they are pulled in step, the backlog stays
            // empty, so the bus performs no further heap operation (observed with the counting allocator)
            if outs.iter().all(|o| o.is_none()) { outs.push(Some(bus.send())); pos.push(pulled); }
            let big: Vec<F2> = vec![];
            let _ = big;
            for i in 0..outs.len() { if let Some(o) = outs[i].as_mut() { while o.pending_frames() > 0 { let _ = o.next(); pos[i] += 1; } } }
            let mut before = 0usize;
            for round in 0..400 {
                if round == 200 { before = ALLOCS.load(Ordering::SeqCst); }
                for o in outs.iter_mut() { if let Some(o) = o { let _ = o.next(); } }
            }
            let grown = ALLOCS.load(Ordering::SeqCst) - before;
            rec!(grown, 0usize);
        }
        _ => {}
    }
    (got.join(" | "), want.join(" | "))
}

const TARGETS: &[&str] = &[
    "AddAmp::next", "MulAmp::next", "ScaleAmp::next", "ScaleAmpPerChannel::next", "OffsetAmp::next",
    "OffsetAmpPerChannel::next", "Map::next", "ZipMap::next", "Inspect::next", "ClipAmp::next", "Delay::next",
    "RefMut::next", "FromIterator::next", "FromInterleavedSamplesIterator::next", "UntilExhausted::next",
    "Take::next", "IntoInterleavedSamples::next_sample", "Buffered::next", "Buffered::next_frames",
    "BranchRefA::next", "BranchRcA::next", "Converter::next", "MulHz::next", "Linear::interpolate", "Windower::size_hint", "SharedNode::next_frame", "Hz::step", "Window::next", "Detector::next", "Rectangle::window",
];

fn field<'a>(js: &'a str, k: &str) -> &'a str {
    let pat = format!("\"{}\":", k);
    let i = js.find(&pat).expect("field") + pat.len();
    let rest = js[i..].trim_start();
    if rest.starts_with('"') { let e = rest[1..].find('"').unwrap(); &rest[1..1 + e] }
    else { let e = rest.find(|c: char| c == ',' || c == '}').unwrap(); rest[..e].trim() }
}

fn guarded(target: &str, seed: u64, len: usize) -> (String, String) {
    let t = target.to_string();
    match panic::catch_unwind(move || run_case(&t, seed, len)) {
        Ok(x) => x,
        Err(_) => ("<panic>".into(), "<no panic>".into()),
    }
}

fn first_diff(g: &str, w: &str) -> (String, String) {
    let gs: Vec<&str> = g.split(" | ").collect(); let ws: Vec<&str> = w.split(" | ").collect();
    for i in 0..gs.len().max(ws.len()) {
        let a = gs.get(i).unwrap_or(&"<none>"); let b = ws.get(i).unwrap_or(&"<none>");
        if a != b { return (format!("#{}: {}", i, a), format!("#{}: {}", i, b)); }
    }
    (String::new(), String::new())
}

fn main() {
    panic::set_hook(Box::new(|_| {}));
    let args: Vec<String> = std::env::args().collect();
    if args.len() >= 3 && args[1] == "replay" {
        let js = &args[2];
        let target = field(js, "target").to_string();
        let seed: u64 = field(js, "seed").parse().unwrap();
        let len: usize = field(js, "len").parse().unwrap();
        let (g, w) = guarded(&target, seed, len);
        let (dg, dw) = first_diff(&g, &w);
        println!("replay {} seed={} source_len={}", target, seed, len);
        println!("  real code : {}", if dg.is_empty() { "(all observations agree)" } else { &dg });
        println!("  contract  : {}", if dw.is_empty() { "(all observations agree)" } else { &dw });
        if g != w { println!("  => DISAGREE (violation reproduces on the real code)"); std::process::exit(1); }
        println!("  => agree");
        return;
    }
    let target = args.get(2).map(|s| s.as_str()).unwrap_or("all");
    let seed0: u64 = args.get(3).and_then(|s| s.parse().ok()).unwrap_or(0);
    let mut evals = 0usize; let mut found = 0usize;
    let list: Vec<&str> = if target == "all" { TARGETS.to_vec() } else { vec![target] };
    for t in list {
        let mut hit = false;
        'outer: for len in 0..7usize {
            for k in 0..40u64 {
                let seed = seed0.wrapping_mul(31).wrapping_add(k);
                evals += 1;
                let (g, w) = guarded(t, seed, len);
                if g != w {
                    let (dg, dw) = first_diff(&g, &w);
                    println!("WITNESS {{\"target\":\"{}\",\"seed\":{},\"len\":{},\"got\":{:?},\"want\":{:?}}}", t, seed, len, dg, dw);
                    found += 1; hit = true;
                    break 'outer;
                }
            }
        }
        let _ = hit;
    }
    println!("SEARCHED {} cases, {} witnesses", evals, found);
}
