use dasp_sample::FloatSample;
fn main() {
    for x in [0.0f64, 1e-6, 0.25, 1.0, 4.0, 100.0] {
        println!("D3 no_std sqrt f64({}) = {:e}  (true {:e})", x, x.sample_sqrt(), x.sqrt());
    }
    for x in [0.0f32, 1e-6, 0.25, 1.0, 4.0, 100.0] {
        println!("   no_std sqrt f32({}) = {:e}  (true {:e})", x, x.sample_sqrt(), x.sqrt());
    }
}
