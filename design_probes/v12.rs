use vstd::prelude::*;
use vstd::std_specs::cmp::*;
use vstd::std_specs::ops::*;
verus! {

// ---- prelude sketch ----
pub trait Sample: Copy + PartialOrd {
    type Signed: Copy + PartialOrd + core::ops::Neg<Output = Self::Signed>;
    type Float: Copy;
}
pub uninterp spec fn to_signed_spec<S: Sample>(s: S) -> S::Signed;
pub uninterp spec fn from_signed_spec<S: Sample>(s: S::Signed) -> S;
pub trait SampleOps: Sample {
    fn to_signed(self) -> (r: Self::Signed) ensures r == to_signed_spec(self);
}
pub trait Frame: Copy {
    type Sample: Sample;
    type NumChannels;
    spec fn channels() -> nat;
    spec fn ch(self, i: int) -> Self::Sample;
}
pub trait FrameOps: Frame {
    fn map<F, M>(self, map: M) -> (r: F)
        where F: Frame<NumChannels = Self::NumChannels>, M: FnMut(Self::Sample) -> F::Sample
        requires forall|x: Self::Sample| call_requires(map, (x,)),
        ensures forall|i: int| 0 <= i < Self::channels() ==> call_ensures(map, (self.ch(i),), #[trigger] r.ch(i));
}
impl<T: Frame> FrameOps for T {
    #[verifier::external_body]
    fn map<F, M>(self, map: M) -> (r: F)
        where F: Frame<NumChannels = Self::NumChannels>, M: FnMut(Self::Sample) -> F::Sample
    { unimplemented!() }
}

// generic clamp closure as in ClipAmp::next, on a bare sample to see what Verus wants for `>` and `-`
fn clip<S: Sample>(s: S::Signed, thresh: S::Signed) -> S::Signed
{
            if s > thresh {
                thresh
            } else if s < -thresh {
                -thresh
            } else {
                s
            }
}

}
fn main() {}
