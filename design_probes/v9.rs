use vstd::prelude::*;
use vstd::std_specs::ops::*;
verus! {

pub trait Frame: Copy {
    spec fn equilibrium_spec() -> Self;
    #[allow(non_snake_case)]
    fn EQUILIBRIUM_() -> (r: Self) ensures r == Self::equilibrium_spec();
}

// local stand-in for core::iter::Iterator: deterministic state machine (assumed contract on the dependency)
pub trait Iterator {
    type Item;
    type ISt;
    spec fn ist(&self) -> Self::ISt;
    spec fn inext(s: Self::ISt) -> (Option<Self::Item>, Self::ISt);
    fn next(&mut self) -> (r: Option<Self::Item>)
        ensures (r, final(self).ist()) == Self::inext(old(self).ist());
}

pub trait Signal {
    type Frame: Frame;
    type State;
    spec fn st(&self) -> Self::State;
    spec fn out(s: Self::State) -> Self::Frame;
    spec fn step(s: Self::State) -> Self::State;
    spec fn exh(s: Self::State) -> bool;
    fn next(&mut self) -> (f: Self::Frame)
        ensures f == Self::out(old(self).st()), final(self).st() == Self::step(old(self).st());
    fn is_exhausted(&self) -> (b: bool) ensures b == Self::exh(self.st());
}

pub struct FromIterator<I>
where
    I: Iterator,
{
    iter: I,
    next: Option<I::Item>,
}

impl<I> Signal for FromIterator<I>
where
    I: Iterator,
    I::Item: Frame,
{
    type Frame = I::Item;
    type State = (I::ISt, Option<I::Item>);
    closed spec fn st(&self) -> Self::State { (self.iter.ist(), self.next) }
    open spec fn out(s: Self::State) -> Self::Frame { match s.1 { Some(f) => f, None => <I::Item as Frame>::equilibrium_spec() } }
    open spec fn step(s: Self::State) -> Self::State { match s.1 { Some(f) => (I::inext(s.0).1, I::inext(s.0).0), None => s } }
    open spec fn exh(s: Self::State) -> bool { s.1 is None }

    #[inline]
    fn next(&mut self) -> Self::Frame {
        match self.next.take() {
            Some(frame) => {
                self.next = self.iter.next();
                frame
            }
            None => Frame::EQUILIBRIUM_(),
        }
    }

    #[inline]
    fn is_exhausted(&self) -> bool {
        self.next.is_none()
    }
}

pub struct UntilExhausted<S>
where
    S: Signal,
{
    signal: S,
}

impl<S> Iterator for UntilExhausted<S>
where
    S: Signal,
{
    type Item = S::Frame;
    type ISt = S::State;
    closed spec fn ist(&self) -> Self::ISt { self.signal.st() }
    open spec fn inext(s: Self::ISt) -> (Option<Self::Item>, Self::ISt) {
        if S::exh(s) { (None, s) } else { (Some(S::out(s)), S::step(s)) }
    }
    #[inline]
    fn next(&mut self) -> Option<Self::Item> {
        if self.signal.is_exhausted() {
            return None;
        }
        Some(self.signal.next())
    }
}

}
fn main() {}
