use vstd::prelude::*;
verus! {

// (g) wrap_overflow verbatim (macro-expanded for I48 by the extractor)
const MIN_REP: i64 = -140_737_488_355_328;
const MAX_REP: i64 = 140_737_488_355_327;
const TOTAL: i64 = 281_474_976_710_656;

#[derive(Copy, Clone)]
pub struct I48(pub i64);

impl I48 {
    spec fn in_range(self) -> bool { MIN_REP <= self.0 <= MAX_REP }

    fn wrap_overflow_once(self) -> (r: Self)
        requires MIN_REP - TOTAL <= self.0 <= MAX_REP + TOTAL
        ensures r.in_range(), (r.0 - self.0) % (TOTAL as int) == 0
    {
        if      self.0 > MAX_REP { I48(self.0 - TOTAL) }
        else if self.0 < MIN_REP { I48(self.0 + TOTAL) }
        else                     { self }
    }

    fn wrap_overflow(self) -> (r: Self)
        ensures r.in_range(), (r.0 - self.0) % (TOTAL as int) == 0
    {
        let mut this = self; let ghost s0 = self.0;
        while this.0 > MAX_REP
            invariant (this.0 - s0) % (TOTAL as int) == 0, this.0 >= MIN_REP || this.0 == s0 || this.0 > MAX_REP - TOTAL,
            decreases this.0
        {
            this.0 -= TOTAL;
        }
        while this.0 < MIN_REP
            invariant (this.0 - s0) % (TOTAL as int) == 0, this.0 <= MAX_REP,
            decreases -this.0
        {
            this.0 += TOTAL;
        }
        this
    }
}

}
fn main() {}
