use vstd::prelude::*;
verus! {
#[verifier::external_body]
fn get_unchecked_<T>(s: &[T], i: usize) -> (r: &T)
    requires i < s@.len()
    ensures *r == s@[i as int]
{ unsafe { s.get_unchecked(i) } }
pub trait Slice {
    type Element;
    spec fn view(&self) -> Seq<Self::Element>;
    fn slice(&self) -> (r: &[Self::Element]) ensures r@ == self.view();
}
pub struct Bounded<S> {
    pub start: usize,
    pub len: usize,
    pub data: S,
}
impl<S> Bounded<S>
where
    S: Slice,
    S::Element: Copy,
{
    pub open spec fn wf(&self) -> bool { self.start < self.data.view().len() && self.len <= self.data.view().len() }
    pub open spec fn seq(&self) -> Seq<S::Element> {
        Seq::new(self.len as nat, |i: int| self.data.view()[(self.start + i) % (self.data.view().len() as int)])
    }
    #[inline]
    pub fn max_len(&self) -> (r: usize) ensures r == self.data.view().len() {
        self.data.slice().len()
    }
    #[inline]
    pub fn slices(&self) -> (r: (&[S::Element], &[S::Element]))
        requires self.wf()
        ensures r.0@ + r.1@ == self.seq()
    {
        let (end, start) = self.data.slice().split_at(self.start);
        if start.len() <= self.len {
            let end_len = self.len - start.len();
            (start, &end[..end_len])
        } else {
            (&start[..self.len], &end[..0])
        }
    }
    #[inline]
    pub fn get(&self, index: usize) -> (r: Option<&S::Element>)
        requires self.wf()
        ensures r.is_some() == (index < self.len), r.is_some() ==> *r.unwrap() == self.seq()[index as int]
    {
        if index >= self.len {
            return None;
        }
        let wrapped_index = index % self.max_len();
        unsafe { Some(get_unchecked_(self.data.slice(), wrapped_index)) }
    }
}
}
fn main() {}
