use dasp_ring_buffer as rb;
use dasp_sample::{FloatSample, I24, types::{I11, I48}};
use dasp_signal::window::Windower;
use dasp_signal::Signal;
fn main() {
    // D1
    let mut b = rb::Bounded::from([0i32; 3]);
    for x in 1..=4 { b.push(x); }
    println!("D1 Bounded after push 1..=4: iter={:?} get(0)={:?} get(1)={:?} get(2)={:?} idx0={}", b.iter().collect::<Vec<_>>(), b.get(0), b.get(1), b.get(2), b[0]);
    // D3 (no_std sqrt since default-features=false for dasp_sample)
    println!("D3 sqrt f64(4.0) = {:e}; sqrt f32(4.0) = {}", 4.0f64.sample_sqrt(), 4.0f32.sample_sqrt());
    // D4
    let m = I24::new(-8_388_608).unwrap();
    println!("D4 -I24::MIN inner = {} (MAX = 8388607)", (-m).inner());
    let m11 = I11::new(-1024).unwrap();
    println!("D4 -I11::MIN inner = {}", (-m11).inner());
    let m48 = I48::new(-140_737_488_355_328).unwrap();
    println!("D4 -I48::MIN inner = {}", (-m48).inner());
    // D5
    let data = [0.0f64; 8];
    for (bin, hop) in [(2usize, 1usize), (8, 1), (3, 2), (8, 4)] {
        let w = Windower::rectangle(&data[..], bin, hop);
        let hint = w.size_hint();
        let n = w.count();
        println!("D5 L=8 bin={} hop={} size_hint={:?} actual={}", bin, hop, hint, n);
    }
    // D6
    let f = rb::Fixed::from_raw_parts(1, [10, 20, 30]);
    let r = std::panic::catch_unwind(|| *f.get(usize::MAX));
    println!("D6 Fixed first=1 len=3 get(usize::MAX) = {:?} (2^64 % 3 = 1 -> expected element at (1+2^64-1)%3 = 2^64%3 = 1 => 20)", r);
    // D7
    let r = std::panic::catch_unwind(|| { let mut n = dasp_signal::noise(u64::MAX); n.next() });
    println!("D7 noise(u64::MAX).next() = {:?}", r);
}
