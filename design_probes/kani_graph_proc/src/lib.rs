//! Unit graph_proc (C09, C07 graph clause, C16 nested graph), BOUNDED: dasp_graph's own `process` / `Processor` /
//! `sources` / `sinks` / `GraphNode` run on a minimal array-backed graph type that implements the petgraph traits the
//! crate documents as its extension point ("consider implementing the necessary petgraph traits for your own graph
//! type").  petgraph's `Graph` / `StableGraph` containers do not finish in CBMC (measured); its generic
//! `DfsPostOrder` and `Reversed` adaptor — what dasp_graph actually calls — are the real ones.
//! The adjacency matrix is SYMBOLIC: every directed multigraph on N nodes with up to 2 parallel edges per ordered
//! pair, self-loops and cycles included, and every choice of output node.
#![allow(unused)]

use dasp_graph::{Buffer, Input, Node, NodeData};
use petgraph::data::{DataMap, DataMapMut};
use petgraph::visit::{Data, GraphBase, IntoNeighbors, IntoNeighborsDirected, NodeCount, NodeIndexable, VisitMap, Visitable};
use petgraph::Direction;

/// array-backed directed multigraph: adj[a][b] = number of edges a -> b
pub struct Tiny<T, const N: usize> {
    pub nodes: [NodeData<T>; N],
    pub adj: [[u8; N]; N],
}
impl<const N: usize> VisitMap<usize> for SeenArr<N> {
    fn visit(&mut self, a: usize) -> bool { let first = !self.0[a]; self.0[a] = true; first }
    fn is_visited(&self, a: &usize) -> bool { self.0[*a] }
}
pub struct SeenArr<const N: usize>(pub [bool; N]);
impl<const N: usize> Default for SeenArr<N> { fn default() -> Self { SeenArr([false; N]) } }

impl<T, const N: usize> GraphBase for Tiny<T, N> { type NodeId = usize; type EdgeId = (usize, usize, u8); }
impl<T, const N: usize> Data for Tiny<T, N> { type NodeWeight = NodeData<T>; type EdgeWeight = (); }
static UNIT: () = ();
impl<T, const N: usize> DataMap for Tiny<T, N> {
    fn node_weight(&self, id: usize) -> Option<&NodeData<T>> { self.nodes.get(id) }
    fn edge_weight(&self, id: (usize, usize, u8)) -> Option<&()> { if id.0 < N && id.1 < N && id.2 < self.adj[id.0][id.1] { Some(&UNIT) } else { None } }
}
impl<T, const N: usize> DataMapMut for Tiny<T, N> {
    fn node_weight_mut(&mut self, id: usize) -> Option<&mut NodeData<T>> { self.nodes.get_mut(id) }
    fn edge_weight_mut(&mut self, _id: (usize, usize, u8)) -> Option<&mut ()> { None }
}
impl<T, const N: usize> Visitable for Tiny<T, N> {
    type Map = SeenArr<N>;
    fn visit_map(&self) -> SeenArr<N> { SeenArr([false; N]) }
    fn reset_map(&self, map: &mut SeenArr<N>) { map.0 = [false; N]; }
}
impl<T, const N: usize> NodeCount for Tiny<T, N> { fn node_count(&self) -> usize { N } }
impl<T, const N: usize> NodeIndexable for Tiny<T, N> {
    fn node_bound(&self) -> usize { N }
    fn to_index(&self, a: usize) -> usize { a }
    fn from_index(&self, i: usize) -> usize { i }
}
/// neighbours with multiplicity (a parallel edge yields its endpoint once per edge, as petgraph's containers do)
pub struct Nbrs<const N: usize> { counts: [u8; N], i: usize }
impl<const N: usize> Iterator for Nbrs<N> {
    type Item = usize;
    fn next(&mut self) -> Option<usize> {
        while self.i < N {
            if self.counts[self.i] > 0 { self.counts[self.i] -= 1; return Some(self.i); }
            self.i += 1;
        }
        None
    }
}
impl<'a, T, const N: usize> IntoNeighbors for &'a Tiny<T, N> {
    type Neighbors = Nbrs<N>;
    fn neighbors(self, a: usize) -> Nbrs<N> { Nbrs { counts: self.adj[a], i: 0 } }
}
impl<'a, T, const N: usize> IntoNeighborsDirected for &'a Tiny<T, N> {
    type NeighborsDirected = Nbrs<N>;
    fn neighbors_directed(self, n: usize, d: Direction) -> Nbrs<N> {
        match d {
            Direction::Outgoing => Nbrs { counts: self.adj[n], i: 0 },
            Direction::Incoming => { let mut c = [0u8; N]; let mut k = 0; while k < N { c[k] = self.adj[k][n]; k += 1; } Nbrs { counts: c, i: 0 } }
        }
    }
}

#[cfg(kani)]
pub mod proofs {
    use super::*;
    use dasp_graph::Processor;

    pub struct Log<const N: usize> { pub calls: [u8; N], pub order: [usize; N], pub n: usize, pub from: [[u8; N]; N], pub bad_input: bool, pub bufs: [*const Buffer; N] }
    /// a node that records its invocation: how often, when, and which neighbour each input refers to (by buffer address)
    pub struct Rec<const N: usize> { pub id: usize, pub log: *mut Log<N> }
    impl<const N: usize> Node for Rec<N> {
        fn process(&mut self, inputs: &[Input], output: &mut [Buffer]) {
            let log = unsafe { &mut *self.log };
            log.calls[self.id] = log.calls[self.id].saturating_add(1);
            if log.n < N { log.order[log.n] = self.id; }
            log.n += 1;
            let mut k = 0;
            while k < inputs.len() {
                let p = inputs[k].buffers().as_ptr();
                let mut u = 0; let mut found = false;
                while u < N { if p == log.bufs[u] { log.from[self.id][u] += 1; found = true; } u += 1; }
                if !found || inputs[k].buffers().len() != 1 { log.bad_input = true; }
                k += 1;
            }
            if output.as_ptr() != log.bufs[self.id] { log.bad_input = true; }
        }
    }

    fn reach<const N: usize>(adj: &[[u8; N]; N]) -> [[bool; N]; N] {
        // r[a][b]: a directed path of length >= 1 from a to b
        let mut r = [[false; N]; N];
        let mut a = 0; while a < N { let mut b = 0; while b < N { r[a][b] = adj[a][b] > 0; b += 1; } a += 1; }
        let mut k = 0;
        while k < N { let mut a = 0; while a < N { let mut b = 0; while b < N { if r[a][k] && r[k][b] { r[a][b] = true; } b += 1; } a += 1; } k += 1; }
        r
    }

    pub fn run<const N: usize>(adj: [[u8; N]; N], out: usize) {
        let mut log = Log::<N> { calls: [0; N], order: [0; N], n: 0, from: [[0; N]; N], bad_input: false, bufs: [core::ptr::null(); N] };
        let lp: *mut Log<N> = &mut log;
        let mut g = Tiny::<Rec<N>, N> { nodes: core::array::from_fn(|i| NodeData::new1(Rec { id: i, log: lp })), adj };
        let mut i = 0; while i < N { log.bufs[i] = g.nodes[i].buffers.as_ptr(); i += 1; }
        let mut p: Processor<Tiny<Rec<N>, N>> = Processor::with_capacity(N);
        let r = reach(&adj);
        let mut round = 0;
        while round < 2 {
            log.calls = [0; N]; log.n = 0; log.from = [[0; N]; N];
            p.process(&mut g, out);
            assert!(!log.bad_input, "P: an input that is no node's output buffers, or a node given foreign output buffers");
            let mut v = 0;
            while v < N {
                let upstream = v == out || r[v][out];
                assert!(log.calls[v] == if upstream { 1 } else { 0 }, "P: exactly the upstream subgraph is processed, once each");
                if upstream {
                    let mut u = 0;
                    while u < N {
                        assert!(log.from[v][u] == if u == v { 0 } else { adj[u][v] }, "P: one input per incoming edge from a different node, never the node's own buffers");
                        u += 1;
                    }
                }
                v += 1;
            }
            // inputs first: an edge u -> v that lies on no cycle through both has u processed before v
            let mut pos = [N; N];
            let mut k = 0; while k < N && k < log.n { pos[log.order[k]] = k; k += 1; }
            let mut u = 0;
            while u < N {
                let mut v = 0;
                while v < N {
                    if u != v && adj[u][v] > 0 && (v == out || r[v][out]) && !r[v][u] {
                        assert!(pos[u] < pos[v], "P: a node is processed after the nodes that feed it");
                    }
                    v += 1;
                }
                u += 1;
            }
            round += 1;
        }
        // source / sink enumeration
        let gr = &g;
        let mut is_src = [false; N]; let mut cnt = 0;
        for s in dasp_graph::sources(&gr) { assert!(s < N && !is_src[s]); is_src[s] = true; cnt += 1; }
        let mut is_snk = [false; N];
        for s in dasp_graph::sinks(&gr) { assert!(s < N && !is_snk[s]); is_snk[s] = true; }
        let mut v = 0;
        while v < N {
            let mut indeg = 0u32; let mut outdeg = 0u32; let mut u = 0;
            while u < N { indeg += adj[u][v] as u32; outdeg += adj[v][u] as u32; u += 1; }
            assert!(is_src[v] == (indeg == 0), "P: sources are exactly the nodes without incoming edges");
            assert!(is_snk[v] == (outdeg == 0), "P: sinks are exactly the nodes without outgoing edges");
            v += 1;
        }
    }
    /// every directed multigraph on N nodes with multiplicities 0..=MAXMUL per ordered pair (self-loops, cycles, parallel
    /// edges) and every output node, enumerated concretely (a symbolic adjacency matrix does not finish: measured)
    pub fn enumerate<const N: usize>(maxmul: u8, lo: u32, hi: u32) {
        let base = maxmul as u32 + 1;
        let mut code = lo;
        while code < hi {
            let mut adj = [[0u8; N]; N];
            let mut c = code; let mut a = 0;
            while a < N { let mut b = 0; while b < N { adj[a][b] = (c % base) as u8; c /= base; b += 1; } a += 1; }
            let mut out = 0;
            while out < N { run::<N>(adj, out); out += 1; }
            code += 1;
        }
    }
    #[kani::proof] #[kani::unwind(100)] pub fn c09_graph_n2() { enumerate::<2>(2, 0, 81) }
}

#[cfg(kani)]
pub mod nested {
    //! C16 (nested-graph node behaves like the graph it wraps) and C07 (graph processing with the stock nodes allocates
    //! nothing once a processor has processed a graph of that size once) on concrete small topologies.
    use super::*;
    use dasp_graph::node::{GraphNode, Pass, Sum};
    use dasp_graph::{BoxedNode, Processor};
    use std::alloc::{GlobalAlloc, Layout, System};

    static mut STEADY: bool = false;
    pub unsafe fn c_alloc(l: Layout) -> *mut u8 { assert!(!STEADY, "P: heap allocation in steady state"); System.alloc(l) }
    pub unsafe fn c_alloc_zeroed(l: Layout) -> *mut u8 { assert!(!STEADY, "P: heap allocation in steady state"); System.alloc_zeroed(l) }
    pub unsafe fn c_realloc(p: *mut u8, l: Layout, n: usize) -> *mut u8 { assert!(!STEADY, "P: heap reallocation in steady state"); System.realloc(p, l, n) }

    /// a source node writing a fixed value into sample 3 of each output buffer
    pub struct Src(pub f32);
    impl Node for Src { fn process(&mut self, _i: &[Input], out: &mut [Buffer]) { let mut k = 0; while k < out.len() { out[k][3] = self.0; k += 1; } } }

    type Inner = Tiny<BoxedNode, 2>;
    fn inner() -> Inner {
        // inner graph: node 0 (Pass, fed by the GraphNode's input) -> node 1 (Sum, the GraphNode's output); one buffer each
        Tiny { nodes: [NodeData::boxed1(Pass), NodeData::boxed1(Sum)], adj: [[0, 1], [0, 0]] }
    }
    fn outer(x: f32) -> Tiny<BoxedNode, 2> {
        let gn: GraphNode<Inner, BoxedNode> = GraphNode {
            processor: Processor::with_capacity(2), graph: inner(), input_nodes: vec![0usize], output_node: 1usize,
            node_type: core::marker::PhantomData,
        };
        // outer graph: node 0 (source) -> node 1 (the nested graph)
        Tiny { nodes: [NodeData::boxed1(Src(x)), NodeData::boxed1(gn)], adj: [[0, 1], [0, 0]] }
    }

    /// C16: a nested-graph node yields what its inner graph yields for the input it is given (Pass -> Sum of one input is the
    /// identity on the buffer), call after call
    #[kani::proof] #[kani::unwind(70)]
    pub fn c16_graph_node_behaves_as_inner_graph() {
        let x: f32 = kani::any(); kani::assume(x.is_finite());
        let mut g = outer(x);
        let mut p: Processor<Tiny<BoxedNode, 2>> = Processor::with_capacity(2);
        p.process(&mut g, 1);
        assert!(g.nodes[1].buffers[0][3].to_bits() == x.to_bits(), "P: nested graph output == inner graph evaluated on the node's input");
        assert!(g.nodes[1].buffers[0][4] == 0.0);
        p.process(&mut g, 1);
        assert!(g.nodes[1].buffers[0][3].to_bits() == x.to_bits());
    }

    /// C07 graph clause: after ONE process call of a graph of that size, further calls (outer graph, nested GraphNode with a
    /// non-empty input list, boxed Pass / Sum) never reach the allocator (allocation / reallocation)
    #[kani::proof] #[kani::unwind(70)]
    #[kani::stub(std::alloc::alloc, c_alloc)] #[kani::stub(std::alloc::alloc_zeroed, c_alloc_zeroed)] #[kani::stub(std::alloc::realloc, c_realloc)]
    pub fn c07_graph_processing_steady_state() {
        let mut g = outer(0.5);
        let mut p: Processor<Tiny<BoxedNode, 2>> = Processor::with_capacity(2);
        p.process(&mut g, 1);
        unsafe { STEADY = true; }
        p.process(&mut g, 1);
        p.process(&mut g, 1);
        unsafe { STEADY = false; }
        assert!(g.nodes[1].buffers[0][3] == 0.5);
    }
    /// the interception works on this crate too
    #[kani::proof] #[kani::should_panic]
    #[kani::stub(std::alloc::alloc, c_alloc)] #[kani::stub(std::alloc::alloc_zeroed, c_alloc_zeroed)] #[kani::stub(std::alloc::realloc, c_realloc)]
    pub fn c07_graph_selftest_detects_alloc() {
        unsafe { STEADY = true; }
        let v = vec![1usize, 2, 3];
        kani::cover!(v.len() == 3, "MUST-BE-UNREACHABLE: allocation was not intercepted");
    }
}
