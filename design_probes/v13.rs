use vstd::prelude::*;
verus! {

pub trait Frame: Copy {}
pub trait Signal {
    type Frame: Frame;
    type State;
    spec fn st(&self) -> Self::State;
    spec fn out(s: Self::State) -> Self::Frame;
    spec fn step(s: Self::State) -> Self::State;
    spec fn exh(s: Self::State) -> bool;
    fn next(&mut self) -> (f: Self::Frame)
        ensures f == Self::out(old(self).st()), final(self).st() == Self::step(old(self).st());
    fn is_exhausted(&self) -> (b: bool) ensures b == Self::exh(self.st());
}

// contract-only stub of the ring buffer (its body is verified in the ring_buffer unit)
pub struct Bounded<T> { pub q: Ghost<Seq<T>>, pub cap: Ghost<nat> }
impl<T: Copy> Bounded<T> {
    pub open spec fn seq(&self) -> Seq<T> { self.q@ }
    pub open spec fn capn(&self) -> nat { self.cap@ }
    pub open spec fn wf(&self) -> bool { self.q@.len() <= self.cap@ && 1 <= self.cap@ <= usize::MAX }
    #[verifier::external_body]
    pub fn max_len(&self) -> (r: usize) requires self.wf() ensures r == self.capn() { unimplemented!() }
    #[verifier::external_body]
    pub fn len(&self) -> (r: usize) requires self.wf() ensures r == self.seq().len() { unimplemented!() }
    #[verifier::external_body]
    pub fn pop(&mut self) -> (r: Option<T>)
        requires old(self).wf()
        ensures final(self).wf(), final(self).capn() == old(self).capn(),
            old(self).seq().len() == 0 ==> r is None && final(self).seq() == old(self).seq(),
            old(self).seq().len() > 0 ==> r == Some(old(self).seq()[0]) && final(self).seq() == old(self).seq().drop_first(),
    { unimplemented!() }
    #[verifier::external_body]
    pub fn push(&mut self, elem: T) -> (r: Option<T>)
        requires old(self).wf()
        ensures final(self).wf(), final(self).capn() == old(self).capn(),
            old(self).seq().len() < old(self).capn() ==> r is None && final(self).seq() == old(self).seq().push(elem),
            old(self).seq().len() == old(self).capn() ==> r == Some(old(self).seq()[0]) && final(self).seq() == old(self).seq().drop_first().push(elem),
    { unimplemented!() }
}

pub open spec fn stepn<S: Signal>(s: S::State, n: nat) -> S::State decreases n {
    if n == 0 { s } else { S::step(stepn::<S>(s, (n - 1) as nat)) }
}

pub struct Buffered<S: Signal> {
    signal: S,
    ring_buffer: Bounded<S::Frame>,
}

impl<S> Buffered<S>
where
    S: Signal,
{
    fn next(&mut self) -> (r: S::Frame)
        requires old(self).ring_buffer.wf(),
        ensures final(self).ring_buffer.wf(),
            old(self).ring_buffer.seq().len() > 0 ==> r == old(self).ring_buffer.seq()[0] && final(self).signal.st() == old(self).signal.st(),
            old(self).ring_buffer.seq().len() == 0 ==> r == S::out(old(self).signal.st())
                && final(self).signal.st() == stepn::<S>(old(self).signal.st(), old(self).ring_buffer.capn()),
    {

        let ghost s0 = self.signal.st(); let ghost q0 = self.ring_buffer.seq(); let ghost cap = self.ring_buffer.capn();
        loop
            invariant s0 == old(self).signal.st(), q0 == old(self).ring_buffer.seq(), cap == old(self).ring_buffer.capn(), self.ring_buffer.wf(), self.ring_buffer.capn() == cap,
                q0.len() > 0 ==> self.ring_buffer.seq() == q0 && self.signal.st() == s0,
                q0.len() == 0 ==> (self.ring_buffer.seq().len() == 0 && self.signal.st() == s0)
                    || (self.ring_buffer.seq().len() == cap && self.ring_buffer.seq()[0] == S::out(s0) && self.signal.st() == stepn::<S>(s0, cap)),
            decreases (if self.ring_buffer.seq().len() > 0 { 0int } else { 1int }),
        {
            match self.ring_buffer.pop() {
                Some(frame) => return frame,
                None => {
                    for j in it: 0..self.ring_buffer.max_len()
                        invariant it.iter.end == cap, self.ring_buffer.wf(), self.ring_buffer.capn() == cap, q0.len() == 0,
                            self.ring_buffer.seq().len() == j, j <= cap,
                            self.signal.st() == stepn::<S>(s0, j as nat),
                            j > 0 ==> self.ring_buffer.seq()[0] == S::out(s0),
                    {
                        self.ring_buffer.push(self.signal.next());
                    }
                }
            }
        }
    }
}

}
fn main() {}
