#[cfg(kani)]
mod proofs {
    use dasp_sample::types::{I11, I24};

    fn any_i11() -> I11 { let v: i16 = kani::any(); kani::assume(-1024 <= v && v <= 1023); I11::new(v).unwrap() }

    // which build are we?
    #[kani::proof]
    fn build_mode() {
        kani::cover!(cfg!(debug_assertions), "debug_assertions ON");
        kani::cover!(!cfg!(debug_assertions), "debug_assertions OFF");
    }

    #[kani::proof]
    fn i11_add() {
        let a = any_i11(); let b = any_i11();
        let exact = a.inner() as i32 + b.inner() as i32;
        let r = a + b;
        kani::cover!(exact > 1023, "returned normally although overflow");
        kani::cover!(exact <= 1023 && exact >= -1024, "returned normally in range");
        assert!(-1024 <= r.inner() && r.inner() <= 1023);
        assert!((r.inner() as i32 - exact) % 2048 == 0);
    }

    #[kani::proof]
    #[kani::unwind(40)]
    fn i11_mul() {
        let a = any_i11(); let b = any_i11();
        let exact = a.inner() as i32 * b.inner() as i32;
        let r = a * b;
        kani::cover!(exact > 1023, "mul returned normally although overflow");
        assert!(-1024 <= r.inner() && r.inner() <= 1023);
        assert!((r.inner() as i32 - exact) % 2048 == 0);
    }

    #[kani::proof]
    fn frem_phase() {
        let a: f64 = kani::any(); let s: f64 = kani::any();
        kani::assume(a >= 0.0 && a < 1.0 && s >= 0.0 && s < 1.0e6);
        let n = (a + s) % 1.0;
        assert!(n >= 0.0 && n < 1.0);
    }
}
