use vstd::prelude::*;
use vstd::std_specs::ops::*;
use vstd::std_specs::cmp::*;
verus! {

pub uninterp spec fn rv(x: f64) -> real;

pub broadcast axiom fn ax_add_obeys() ensures #[trigger] <f64 as AddSpec>::obeys_add_spec();
pub broadcast axiom fn ax_add_req(a: f64, b: f64) ensures #[trigger] a.add_req(b);
pub broadcast axiom fn ax_add(a: f64, b: f64) ensures rv(#[trigger] a.add_spec(b)) == rv(a) + rv(b);
pub broadcast axiom fn ax_sub_obeys() ensures #[trigger] <f64 as SubSpec>::obeys_sub_spec();
pub broadcast axiom fn ax_sub_req(a: f64, b: f64) ensures #[trigger] a.sub_req(b);
pub broadcast axiom fn ax_sub(a: f64, b: f64) ensures rv(#[trigger] a.sub_spec(b)) == rv(a) - rv(b);
pub broadcast axiom fn ax_one() ensures rv(1.0f64) == 1real;

pub broadcast group float_as_real { ax_add_obeys, ax_add_req, ax_add, ax_sub_obeys, ax_sub_req, ax_sub, ax_one }

fn f1(a: f64, b: f64) -> (r: f64)
    ensures rv(r) == rv(a) + rv(b) - 1real
{
    broadcast use float_as_real;
    let c = a + b;
    if c >= 1.0 { c - 1.0 } else { c - 1.0 }
}

}
fn main() {}
