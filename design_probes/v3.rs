use vstd::prelude::*;
verus! {

// ---- trusted prelude: trait contracts -------------------------------------------------
pub trait Sample: Copy {
    type Signed;
    type Float;
}

pub trait Frame: Copy {
    type Sample: Sample;
    type NumChannels;
    spec fn equilibrium_spec() -> Self;
    fn equilibrium() -> (r: Self) ensures r == Self::equilibrium_spec();
}
pub uninterp spec fn add_amp_spec<A, B>(a: A, b: B) -> A;
pub trait FrameOps: Frame {
    fn add_amp<F>(self, other: F) -> (r: Self)
        where F: Frame<Sample = <Self::Sample as Sample>::Signed, NumChannels = Self::NumChannels>
        ensures r == add_amp_spec(self, other);
}
impl<T: Frame> FrameOps for T {
    #[verifier::external_body]
    fn add_amp<F>(self, other: F) -> (r: Self)
        where F: Frame<Sample = <Self::Sample as Sample>::Signed, NumChannels = Self::NumChannels>
    { unimplemented!() }
}

pub trait Signal {
    type Frame: Frame;
    type State;   // abstract state
    spec fn st(&self) -> Self::State;
    spec fn out(s: Self::State) -> Self::Frame;       // frame produced from state s
    spec fn step(s: Self::State) -> Self::State;      // successor state
    spec fn exh(s: Self::State) -> bool;              // exhausted in state s
    spec fn pulls(&self) -> nat;                      // ghost: number of next() calls so far

    fn next(&mut self) -> (f: Self::Frame)
        ensures
            f == Self::out(old(self).st()),
            final(self).st() == Self::step(old(self).st());

    fn is_exhausted(&self) -> (b: bool)
        ensures b == Self::exh(self.st());
}

// ---- extracted verbatim from dasp_signal/src/lib.rs ------------------------------------
pub struct AddAmp<A, B> {
    a: A,
    b: B,
}

impl<A, B> Signal for AddAmp<A, B>
where
    A: Signal,
    B: Signal,
    B::Frame: Frame<
        Sample = <<A::Frame as Frame>::Sample as Sample>::Signed,
        NumChannels = <A::Frame as Frame>::NumChannels,
    >,
{
    type Frame = A::Frame;
    // injected
    type State = (A::State, B::State);
    closed spec fn st(&self) -> Self::State { (self.a.st(), self.b.st()) }
    open spec fn out(s: Self::State) -> Self::Frame { add_amp_spec(A::out(s.0), B::out(s.1)) }
    open spec fn step(s: Self::State) -> Self::State { (A::step(s.0), B::step(s.1)) }
    open spec fn exh(s: Self::State) -> bool { A::exh(s.0) || B::exh(s.1) }
    closed spec fn pulls(&self) -> nat { 0 }

    #[inline]
    fn next(&mut self) -> Self::Frame {
        self.a.next().add_amp(self.b.next())
    }

    #[inline]
    fn is_exhausted(&self) -> bool {
        self.a.is_exhausted() || self.b.is_exhausted()
    }
}

pub struct Delay<S> {
    signal: S,
    n_frames: usize,
}

impl<S> Signal for Delay<S>
where
    S: Signal,
{
    type Frame = S::Frame;
    type State = (S::State, nat);
    closed spec fn st(&self) -> Self::State { (self.signal.st(), self.n_frames as nat) }
    open spec fn out(s: Self::State) -> Self::Frame { if s.1 > 0 { <S::Frame as Frame>::equilibrium_spec() } else { S::out(s.0) } }
    open spec fn step(s: Self::State) -> Self::State { if s.1 > 0 { (s.0, (s.1 - 1) as nat) } else { (S::step(s.0), 0) } }
    open spec fn exh(s: Self::State) -> bool { s.1 == 0 && S::exh(s.0) }
    closed spec fn pulls(&self) -> nat { 0 }

    #[inline]
    fn next(&mut self) -> Self::Frame {
        if self.n_frames > 0 {
            self.n_frames -= 1;
            Self::Frame::equilibrium()
        } else {
            self.signal.next()
        }
    }

    #[inline]
    fn is_exhausted(&self) -> bool {
        self.n_frames == 0 && self.signal.is_exhausted()
    }
}

}
fn main() {}
