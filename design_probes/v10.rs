use vstd::prelude::*;
use vstd::std_specs::ops::*;
use vstd::std_specs::cmp::*;
verus! {

pub uninterp spec fn rv(x: f64) -> real;
pub broadcast axiom fn ax_add_obeys() ensures #[trigger] <f64 as AddSpec>::obeys_add_spec();
pub broadcast axiom fn ax_add_req(a: f64, b: f64) ensures #[trigger] a.add_req(b);
pub broadcast axiom fn ax_add(a: f64, b: f64) ensures rv(#[trigger] a.add_spec(b)) == rv(a) + rv(b);
pub broadcast axiom fn ax_sub_obeys() ensures #[trigger] <f64 as SubSpec>::obeys_sub_spec();
pub broadcast axiom fn ax_sub_req(a: f64, b: f64) ensures #[trigger] a.sub_req(b);
pub broadcast axiom fn ax_sub(a: f64, b: f64) ensures rv(#[trigger] a.sub_spec(b)) == rv(a) - rv(b);
#[verifier::allow(broadcast_without_trigger)]
pub broadcast axiom fn ax_one() ensures rv(1.0f64) == 1real;
pub broadcast group float_as_real { ax_add_obeys, ax_add_req, ax_add, ax_sub_obeys, ax_sub_req, ax_sub, ax_one }

pub trait Frame: Copy {}
pub trait Signal {
    type Frame: Frame;
    type State;
    spec fn st(&self) -> Self::State;
    spec fn out(s: Self::State) -> Self::Frame;
    spec fn step(s: Self::State) -> Self::State;
    spec fn exh(s: Self::State) -> bool;
    fn next(&mut self) -> (f: Self::Frame)
        ensures f == Self::out(old(self).st()), final(self).st() == Self::step(old(self).st());
    fn is_exhausted(&self) -> (b: bool) ensures b == Self::exh(self.st());
}
pub trait Interpolator {
    type Frame: Frame;
    type IS;
    spec fn is(&self) -> Self::IS;
    spec fn interp(s: Self::IS, x: real) -> Self::Frame;
    spec fn feed(s: Self::IS, f: Self::Frame) -> Self::IS;
    fn interpolate(&self, x: f64) -> (r: Self::Frame) ensures r == Self::interp(self.is(), rv(x));
    fn next_source_frame(&mut self, source_frame: Self::Frame)
        ensures final(self).is() == Self::feed(old(self).is(), source_frame);
}

pub struct Converter<S, I>
where
    S: Signal,
    I: Interpolator,
{
    source: S,
    interpolator: I,
    interpolation_value: f64,
    source_to_target_ratio: f64,
}

impl<S, I> Converter<S, I>
where
    S: Signal,
    I: Interpolator<Frame = S::Frame>,
{
    fn next(&mut self) -> S::Frame
        requires rv(old(self).interpolation_value) >= 0real,
    {
        broadcast use float_as_real;
        let Converter {
            ref mut source,
            ref mut interpolator,
            ref mut interpolation_value,
            source_to_target_ratio,
        } = *self;

        // Advance frames
        while *interpolation_value >= 1.0
        {
            interpolator.next_source_frame(source.next());
            *interpolation_value = *interpolation_value - 1.0;
        }

        let out = interpolator.interpolate(*interpolation_value);
        *interpolation_value = *interpolation_value + source_to_target_ratio;
        out
    }
}

}
fn main() {}
