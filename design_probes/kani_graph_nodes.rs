#[cfg(kani)]
mod proofs {
    use dasp_graph::{Buffer, Input, Node};
    use dasp_graph::node::{Sum, Pass};

    fn any_buffer() -> Buffer { let a: [f32; 64] = kani::any(); Buffer::from(a) }

    #[kani::proof]
    #[kani::unwind(66)]
    #[kani::solver(kissat)]
    fn sum_1x1() {
        let in_a = [any_buffer()];
        let inputs = [Input::verif_new(&in_a)];
        let mut out = [any_buffer()];
        Sum.process(&inputs, &mut out);
        let i: usize = kani::any();
        kani::assume(i < 64);
        let e0 = 0.0f32 + in_a[0][i];
        assert!(out[0][i].to_bits() == e0.to_bits() || (out[0][i].is_nan() && e0.is_nan()));
    }
    #[kani::proof]
    #[kani::unwind(66)]
    fn pass_1x1() {
        let in_a = [any_buffer()];
        let inputs = [Input::verif_new(&in_a)];
        let mut out = [any_buffer()];
        Pass.process(&inputs, &mut out);
        let i: usize = kani::any();
        kani::assume(i < 64);
        assert!(out[0][i].to_bits() == in_a[0][i].to_bits());
    }
}
