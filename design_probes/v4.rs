use vstd::prelude::*;
use core::mem;
verus! {

pub assume_specification<T> [core::mem::replace::<T>] (dest: &mut T, src: T) -> (r: T)
    ensures r == *old(dest), *final(dest) == src;

// R-unchecked: `x.get_unchecked_mut(i)` is rewritten to `get_unchecked_mut_(x, i)`; the bound is a proof obligation.
#[verifier::external_body]
fn get_unchecked_mut_<T>(s: &mut [T], i: usize) -> (r: &mut T)
    requires i < old(s)@.len()
    ensures *r == old(s)@[i as int], final(s)@ == old(s)@.update(i as int, *final(r))
{ unsafe { s.get_unchecked_mut(i) } }

pub trait Slice {
    type Element;
    spec fn view(&self) -> Seq<Self::Element>;
    fn slice(&self) -> (r: &[Self::Element]) ensures r@ == self.view();
}
pub trait SliceMut: Slice {
    fn slice_mut(&mut self) -> (r: &mut [Self::Element])
        ensures r@ == old(self).view(), final(self).view() == final(r)@;
}

pub struct Fixed<S> {
    pub first: usize,
    pub data: S,
}

impl<S> Fixed<S>
where
    S: Slice,
{
    pub open spec fn wf(&self) -> bool { self.first < self.data.view().len() <= usize::MAX }
    /// abstract view: oldest-first sequence
    pub open spec fn seq(&self) -> Seq<S::Element> {
        self.data.view().subrange(self.first as int, self.data.view().len() as int) + self.data.view().subrange(0, self.first as int)
    }

    #[inline]
    pub fn len(&self) -> (r: usize) ensures r == self.data.view().len() {
        self.data.slice().len()
    }

    pub fn push(&mut self, item: S::Element) -> (r: S::Element)
    where
        S: SliceMut,
        requires old(self).wf(),
        ensures final(self).wf(),
            r == old(self).seq()[0],
            final(self).seq() == old(self).seq().drop_first().push(item),
    {
        let mut next_index = self.first + 1;
        if next_index == self.len() {
            next_index = 0;
        }
        // We know there is a fixed length so we can safely avoid bounds checking.
        let old_item =
            unsafe { mem::replace(get_unchecked_mut_(self.data.slice_mut(), self.first), item) };
        self.first = next_index;
        old_item
    }
}

}
fn main() {}
