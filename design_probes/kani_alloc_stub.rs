#[cfg(kani)]
mod proofs {
    use dasp_ring_buffer as rb;
    static mut STEADY: bool = false;

    unsafe fn no_alloc(_l: std::alloc::Layout) -> *mut u8 {
        assert!(!STEADY, "allocation in steady state");
        std::ptr::null_mut()
    }

    #[kani::proof]
    #[kani::stub(std::alloc::alloc, no_alloc)]
    #[kani::unwind(6)]
    fn ring_push_no_alloc() {
        let mut b = rb::Bounded::from([0u8; 4]);
        unsafe { STEADY = true; }
        let x: u8 = kani::any();
        b.push(x);
        let _ = b.pop();
        // deliberately allocate: must be flagged
        let flag: bool = kani::any();
        if flag { let v = vec![1u8, 2, 3]; assert!(v.len() == 3); }
    }
}
