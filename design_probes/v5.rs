use vstd::prelude::*;
verus! {

pub trait Frame: Copy { }

pub trait Signal {
    type Frame: Frame;
    type State;
    spec fn st(&self) -> Self::State;
    spec fn inv(&self) -> bool;
    spec fn trans(&self, s: Self::State, f: Self::Frame, s2: Self::State) -> bool;
    spec fn exh(s: Self::State) -> bool;
    fn next(&mut self) -> (f: Self::Frame)
        requires old(self).inv(),
        ensures final(self).inv(), old(self).trans(old(self).st(), f, final(self).st());
    fn is_exhausted(&self) -> (b: bool) ensures b == Self::exh(self.st());
}

pub struct Map<S, M, F> {
    signal: S,
    map: M,
    frame: core::marker::PhantomData<F>,
}

impl<S, M, F> Signal for Map<S, M, F>
where
    S: Signal,
    M: FnMut(S::Frame) -> F,
    F: Frame,
{
    type Frame = F;
    type State = S::State;
    closed spec fn st(&self) -> Self::State { self.signal.st() }
    closed spec fn inv(&self) -> bool { self.signal.inv() && forall|x: S::Frame| call_requires(self.map, (x,)) }
    closed spec fn trans(&self, s: Self::State, f: Self::Frame, s2: Self::State) -> bool {
        exists|x: S::Frame| self.signal.trans(s, x, s2) && call_ensures(self.map, (x,), f)
    }
    open spec fn exh(s: Self::State) -> bool { S::exh(s) }

    #[inline]
    fn next(&mut self) -> Self::Frame {
        (self.map)(self.signal.next())
    }

    fn is_exhausted(&self) -> bool {
        self.signal.is_exhausted()
    }
}

}
fn main() {}
