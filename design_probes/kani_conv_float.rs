use dasp_sample::{conv, I24, I48, U24, U48, Sample};

/// exact value of finite f64 as (mantissa, exponent): v = m * 2^e, m integer (signed)
pub fn decomp64(x: f64) -> (i128, i32) {
    let b = x.to_bits();
    let neg = (b >> 63) != 0;
    let e = ((b >> 52) & 0x7ff) as i32;
    let f = (b & ((1u64 << 52) - 1)) as i128;
    let (m, ex) = if e == 0 { (f, -1074) } else { (f | (1i128 << 52), e - 1075) };
    (if neg { -m } else { m }, ex)
}

/// trunc toward zero of m*2^e * 2^k, assuming result fits i128 and e+k in (-128,64)
pub fn trunc_scaled(m: i128, e: i32, k: i32) -> i128 {
    let sh = e + k;
    if sh >= 0 { m << (sh as u32) } else {
        let s = (-sh) as u32;
        if s >= 127 { 0 } else {
            let a = if m < 0 { -m } else { m };
            let q = a >> s;
            if m < 0 { -q } else { q }
        }
    }
}

#[cfg(kani)]
mod proofs {
    use super::*;

    #[kani::proof]
    fn f64_to_i64() {
        let s: f64 = kani::any();
        kani::assume(s >= -1.0 && s < 1.0);
        let (m, e) = decomp64(s);
        let r = conv::f64::to_i64(s);
        assert!(r as i128 == trunc_scaled(m, e, 63));
    }

    #[kani::proof]
    fn f64_to_i16() {
        let s: f64 = kani::any();
        kani::assume(s >= -1.0 && s < 1.0);
        let (m, e) = decomp64(s);
        let r = conv::f64::to_i16(s);
        assert!(r as i128 == trunc_scaled(m, e, 15));
    }

    #[kani::proof]
    fn i64_to_f32_range() {
        let s: i64 = kani::any();
        let r = conv::i64::to_f32(s);
        assert!(r >= -1.0 && r <= 1.0);
    }

    #[kani::proof]
    fn i32_to_f64_exact() {
        let s: i32 = kani::any();
        let r = conv::i32::to_f64(s);
        assert!(r >= -1.0 && r < 1.0);
        assert!(conv::f64::to_i32(r) == s);
    }
    #[kani::proof]
    fn i64_to_f64_mono() {
        let s: i64 = kani::any();
        let t: i64 = kani::any();
        kani::assume(s <= t);
        assert!(conv::i64::to_f64(s) <= conv::i64::to_f64(t));
    }
}
