use vstd::prelude::*;
verus! {

fn i8_to_i16(s: i8) -> (r: i16)
    ensures r as int == (s as int) * 256
{
    proof {
        let t = s as i16;
        assert((t << 8u32) == t * 256 ) by (bit_vector) requires -128 <= t <= 127;
    }
    (s as i16) << 8
}

fn i16_to_i8(s: i16) -> (r: i8)
    ensures (r as int) * 256 <= (s as int), (s as int) < (r as int) * 256 + 256
{
    proof {
        assert( (s >> 8u32) * 256 <= s && s < (s >> 8u32) * 256 + 256 && -128 <= (s >> 8u32) <= 127) by (bit_vector);
    }
    (s >> 8) as i8
}

fn i64_to_i8(s: i64) -> (r: i8)
    ensures (r as int) * 0x100_0000_0000_0000 <= (s as int), (s as int) < (r as int) * 0x100_0000_0000_0000 + 0x100_0000_0000_0000
{
    proof {
        assert( -128 <= (s >> 56u32) <= 127) by (bit_vector);
        assert( (s >> 56u32) as int * 0x100_0000_0000_0000 <= s as int) by (bit_vector);
        assert( (s as int) < (s >> 56u32) as int * 0x100_0000_0000_0000 + 0x100_0000_0000_0000) by (bit_vector);
    }
    (s >> 56) as i8
}

}
fn main() {}
