use vstd::prelude::*;
verus! {
pub struct P { a: u64, b: u64 }
impl P {
    // loop, then return after the loop (Converter::next shape)
    fn h(&mut self) -> (r: u64)
        requires old(self).a < 100,
        ensures final(self).a == 0, final(self).b == old(self).b, r == old(self).b
    {
        let P { ref mut a, ref mut b } = *self;
        while *a > 0
            invariant *b == old(self).b,
            decreases *a
        {
            *a = *a - 1;
        }
        let out = *b;
        out
    }
    // return inside loop, with a ghost snapshot of the prophecy
    fn g(&mut self) -> (r: u64)
        requires old(self).a < 100,
        ensures final(self).a == old(self).a + 1, final(self).b == old(self).b, r == old(self).a
    {
        let ghost fin = *final(self);
        let P { ref mut a, ref mut b } = *self;
        loop
            invariant fin.a == *final(a), fin.b == *final(b), *a == old(self).a, *b == old(self).b, *a < 100
            decreases 1int
        {
            let r = *a;
            *a = *a + 1;
            return r;
        }
    }
}
}
fn main() {}
