use vstd::prelude::*;
verus! {
pub struct P { a: u64, b: u64 }
impl P {
    fn f(&mut self) -> (r: u64)
        requires old(self).a < 100,
        ensures final(self).a == old(self).a + 1, final(self).b == old(self).b, r == old(self).a
    {
        let P { ref mut a, ref mut b } = *self;
        assert(*a == old(self).a);
        let r = *a;
        *a = *a + 1;
        return r;
    }
    fn g(&mut self) -> (r: u64)
        requires old(self).a < 100,
        ensures final(self).a == old(self).a + 1, final(self).b == old(self).b, r == old(self).a
    {
        let P { ref mut a, ref mut b } = *self;
        loop
            invariant *a == old(self).a, *b == old(self).b, *a < 100
            decreases 1int
        {
            let r = *a;
            *a = *a + 1;
            return r;
        }
    }
}
}
fn main() {}
