"""C03 — sample and frame amplitude arithmetic (DESIGN.md §6 C03)."""
from vlib.kani import run_kani


def run(ctx):
    ctx.level = 'proof'
    ctx.add_trusted('Kani 0.68 / CBMC 6.11 bit-precise integer and IEEE-754 semantics (T1); spec functions rescale / amp / '
                    'trunc_div_pow2 in kani/common/spec.rs')
    ctx.add_trusted('T6 parametricity: `impl<S, const N: usize> Frame for [S; N]` is one generic text; it is proved at the '
                    'instantiations listed in the evidence (per N with unwinding assertions), not for the type parameter in general')
    ctx.add_assumption('offset laws: the mathematical sum is representable in the signed companion (property precondition); '
                       'scale laws: the product lies in the documented conversion domain [-1, 1)')
    ctx.add_assumption('general scale law and the frame-level scale/mul harnesses use gains that are signed powers of two 2^k '
                       '(|k| <= 8 resp. 6): a symbolic float x float multiplier does not terminate in CBMC; scaling by 0.0 and 1.0 '
                       'is proved for every sample value')
    quick = ctx.tier == 'quick'
    if quick:
        ctx.bounded.append('quick tier: frame structure harnesses (map, zip_map, from_fn/consts, from_samples, channels) for '
                           '[i16;N],[f32;N] N in {1,2,3,8,32} and [u8;N],[I24;N] N in {2,31}; amplitude harnesses N in {1,2}; '
                           'the thorough tier enumerates all N in 1..=32 for 6 formats')
        run_kani(ctx, 'sample_frame', harness=['c03_q_'], harness_timeout='8m', wall_timeout=3000)
    else:
        ctx.extra['exhaustive'] = True
        run_kani(ctx, 'sample_frame', harness=['c03_q_', 'c03_t_'], harness_timeout='25m', wall_timeout=6 * 3600)
