"""C07 — no heap allocation in steady state (DESIGN.md §6 C07): bounded, stated surface."""
from vlib.kani import run_kani


def run(ctx):
    ctx.level = 'model_checking'
    ctx.add_trusted('Kani 0.68 / CBMC 6.11 (T1); the allocator contract: std::alloc::{alloc, alloc_zeroed, realloc, dealloc} are stubbed '
                    'by functions whose precondition is `!STEADY` (harness c07_selftest_detects_alloc shows the interception works)')
    note = ('BOUNDED, stated surface: each harness constructs its objects, sets STEADY, then runs a fixed short sequence of operations '
            'on symbolic inputs: sample/frame ops; borrowed slice views and in-place ops; Fixed/Bounded on array storage from EVERY valid '
            '(start,len) state (push, pop, get, slices, iter, drain, set_first, Extend from exact- and inexact-size iterators); rectifiers, Rms::next/current, peak Detector::next/set_attack_frames; Floor/Linear/Sinc(depth 2) '
            'interpolate/next_source_frame; Converter::next (ratio 1.5); noise/from_iter/gen/equilibrium/saw/square sources and a stack of '
            'map, add_amp, scale_amp, offset_amp, clip_amp, delay, inspect, by_ref().take; fork by_ref branches; buffered next/next_frames; '
            'Window::next, Windower::next/size_hint, Windowed::next')
    ctx.bounded.append(note)
    ctx.add_assumption('frees are NOT intercepted (Kani lowers drops of Box/Vec to __rust_dealloc, bypassing std::alloc::dealloc): the '
                       'check decides "does not allocate or reallocate", not "does not free"')
    ctx.add_assumption('NOT covered: the bus backlog bound and the graph processor (Kani cannot finish on BTreeMap/VecDeque/petgraph, '
                       'measured), by_rc, boxed-slice conversions (documented exceptions), sine/hann (libm), arbitrarily long call sequences')
    ctx.bounded.append('stock graph nodes Sum / SumBuffers / Pass / BoxedNode(Sum): one process call each on 2 inputs x 2 buffers and 2 outputs '
                       '(guarded hook Input::verif_new); graph traversal (Processor, GraphNode) is NOT covered')
    run_kani(ctx, 'noalloc', harness=['c07_'], rustflags='--cfg rustaudio_dasp_verif', harness_timeout='10m', bounded_note=note)
