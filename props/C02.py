"""C02 — float <-> integer conversion is exact scaling, truncating, within [-1,1] (DESIGN.md §6 C02)."""
from vlib.kani import run_kani


def run(ctx):
    ctx.level = 'proof'
    ctx.add_trusted('Kani 0.68 / CBMC 6.11 bit-precise IEEE-754 model (int<->float casts round-to-nearest-even / '
                    'truncate-saturate; f32/f64 mul, div, sub) (T1)')
    ctx.add_trusted('specification functions round_sig / trunc_scaled / exact_scaled / decomp32/64 in '
                    '/verif/kani/common/spec.rs (pure integer code over i128)')
    ctx.add_assumption('float -> int contracts require the documented domain -1.0 <= s < 1.0 (harness c02_domain_edge shows '
                       'that 1.0 saturates, i.e. the domain cannot be widened)')
    ctx.add_assumption('f64 -> f32 nearest-ness is stated for finite |s| <= f32::MAX; the comparison of distances is done '
                       'in f64 arithmetic (exact for these operands) as modelled by CBMC')
    ctx.notes.append('48 contracts int->float / float->int proved over the full domain, 48 order harnesses over two '
                     'symbolic inputs, 16 exact-inverse harnesses, f32<->f64, public dispatch for all 50 float pairs')
    ctx.extra['exhaustive'] = True
    run_kani(ctx, 'conv', harness=['c02_'], harness_timeout='5m')
