"""C06 — ring buffers are FIFO queues / delay lines (DESIGN.md §6 C06)."""
from vlib.vunit import run_unit, build_search
from vlib.kani import run_kani


def run(ctx):
    ctx.level = 'proof'
    ctx.add_trusted('Verus 0.2026.09.13 + Z3 (T1)')
    ctx.add_trusted('trait contracts Slice/SliceMut (view == slice content), assumed specs of mem::replace, '
                    'get_unchecked(_mut) modelled as indexing with the bound as proof obligation, ptr::read/write '
                    'on Copy elements modelled as load/store (T3)')
    ctx.add_trusted('T5: a backing slice has at most isize::MAX elements (axiom ax_slice_len)')
    ctx.add_trusted('Kani 0.68 / CBMC 6.11 for the bounded iterator-view harnesses')
    ctx.add_assumption('std Index/IndexMut/From/Iterator impl bodies are verified as inherent methods (R-inherent); '
                       'the trait dispatch itself is not modelled')
    ctx.add_assumption('slices_mut: only the views on entry are proved by Verus (vstd has no prophecy spec for '
                       'split_at_mut); write-through of slices_mut/iter_mut is covered by the bounded Kani part only')
    run_unit(ctx, 'ring_buffer', search_map={
        'Fixed::index': ['Fixed::index', 'Fixed::get'],
        'Fixed::index_mut': ['Fixed::get_mut'],
        'Bounded::index': ['Bounded::index', 'Bounded::get'],
        'Bounded::index_mut': ['Bounded::get_mut'],
        'DrainBounded::next': ['Bounded::drain'],
    })
    # bounded stand-in for the std-iterator views (never counted as proved)
    caps = ['cap1', 'cap2', 'cap3'] if ctx.tier == 'quick' else ['cap1', 'cap2', 'cap3', 'cap4']
    note = ('BOUNDED (not proof): iter / iter_loop / iter_mut / slices_mut write-through / Extend checked by Kani for capacity in %s '
            'only, every (start,len)/first, symbolic i32 contents, loops unwound 8 with unwinding assertions' % caps)
    ctx.bounded.append(note)
    run_kani(ctx, 'ring_buffer', harness=caps, bounded_note=note, harness_timeout='10m')   # cap1.. also match extend_cap1..


def prepare_replay(rec):
    build_search('ring_buffer')
