"""C06 — ring buffers are FIFO queues / delay lines (DESIGN.md §6 C06)."""
from vlib.vunit import run_unit, build_search


def run(ctx):
    ctx.level = 'proof'
    ctx.add_trusted('Verus 0.2026.09.13 + Z3 (T1)')
    ctx.add_trusted('trait contracts Slice/SliceMut (view == slice content), assumed specs of mem::replace, '
                    'get_unchecked(_mut) modelled as indexing with the bound as proof obligation, ptr::read/write '
                    'on Copy elements modelled as load/store (T3)')
    ctx.add_trusted('T5: a backing slice has at most isize::MAX elements (axiom ax_slice_len)')
    ctx.add_assumption('std Index/IndexMut/From impl bodies are verified as inherent methods (R-inherent); '
                       'the trait dispatch itself is not modelled')
    run_unit(ctx, 'ring_buffer', search_map={
        'Fixed::index': ['Fixed::index', 'Fixed::get'],
        'Fixed::index_mut': ['Fixed::get_mut'],
        'Bounded::index': ['Bounded::index', 'Bounded::get'],
        'Bounded::index_mut': ['Bounded::get_mut'],
        'DrainBounded::next': ['Bounded::drain'],
    })


def prepare_replay(rec):
    build_search('ring_buffer')
