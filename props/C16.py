"""C16 — built-in graph nodes (DESIGN.md §6 C16): bounded shapes."""
from vlib.kani import run_kani


def run(ctx):
    ctx.level = 'model_checking'
    ctx.add_trusted('Kani 0.68 / CBMC 6.11 / kissat, bit-precise f32 (results compared by bits, NaN == NaN) (T1)')
    ctx.add_trusted('T7: dasp_graph links the crates.io 0.11.0 copies of dasp_slice / dasp_ring_buffer / dasp_signal / dasp_frame: '
                    'the harnesses verify what that build runs; a change in /repo/dasp_slice does not reach these nodes')
    ctx.add_assumption('hook Input::verif_new (cfg rustaudio_dasp_verif) lets a harness call Node::process without petgraph')
    note = ('BOUNDED shapes, 64-sample buffers: Pass {1 input x 1 buffer x 2 outputs, no input, 2 buffers x 1 output}; Sum 1 input x 1 '
            'buffer x 2 outputs; SumBuffers 1 input x 2 buffers x 1 output; Sum / SumBuffers with NO input x 2 stale outputs; Delay ring length 2, one call; signal node 2 channels x 3 '
            'outputs, one call; wrappers (&mut, Box, BoxedNode, BoxedNodeSend, fn, dyn FnMut, dyn Fn) around Pass. Sum inputs are a '
            'constant with one symbolic sample at a symbolic position; Pass/Delay contents fully symbolic. Thorough adds: Sum 2 inputs, '
            'SumBuffers 2 outputs, Delay 2 calls x 2 channels, signal node 2 calls (each may be reported NOT COVERED)')
    ctx.bounded.append(note)
    ctx.add_assumption('NOT covered: GraphNode (nested graph => petgraph, infeasible for CBMC), unbounded input counts, larger shapes')
    quick = ['c16_pass', 'c16_sum_1in', 'c16_sum_buffers_1in_2buf_1out', 'c16_delay_1call', 'c16_signal_node', 'c16_wrappers', 'c16_sum_nodes_no_input']   # c16_wrappers also matches c16_wrappers_forward_every_call
    run_kani(ctx, 'graph_nodes', harness=quick, rustflags='--cfg rustaudio_dasp_verif', harness_timeout='10m', bounded_note=note)
    if ctx.tier == 'thorough':
        run_kani(ctx, 'graph_nodes', harness=['c16_t_'], rustflags='--cfg rustaudio_dasp_verif', harness_timeout='30m',
                 tag='default', soft_timeout=True, wall_timeout=3 * 3600)
