"""C19 — rectifiers and envelope follower (DESIGN.md §6 C19)."""
from vlib.kani import run_kani
from vlib.vunit import run_unit, build_search


def run(ctx):
    ctx.level = 'proof'
    ctx.add_trusted('Kani 0.68 / CBMC 6.11 (T1); spec functions amp / rescale (kani/common/spec.rs)')
    ctx.add_assumption('rectifier side condition of the property: the negated signed amplitude is representable (to_signed(s) != MIN)')
    ctx.add_assumption('envelope follower: decided bit-precisely by Kani on f32 mono frames with dyadic inputs (k/64) and ANY pair of '
                       'gains in [0,1) (thorough tier) and on 2-channel frames with gains in {0, 1/4} x {1/2, 3/4} (per-channel choice; quick tier),'
                       ' gains read through the guarded hook Detector::verif_gains; the value exp(-1/frames) of a non-zero time '
                       'is libm powf and is NOT verified (only: 0 frames => gain 0); monotone convergence for constant input follows '
                       'from the between-ness clause and is not separately proved')
    ctx.notes.append('full_wave / positive_half_wave / negative_half_wave and the three Rectifier types for all 14 formats over the '
                     'full sample domain, on the bare-sample frame and per channel on a 2-channel frame (C03 proves map for every N)')
    ctx.bounded.append('BOUNDED: the detect_envelope adaptor feeds each of 3 symbolic source frames exactly once and in order to its '
                       'detector (outputs and final detector state bit-equal to a directly driven Detector, set_release_frames mid-stream '
                       'included; pull count; exhaustion is the source\'s)')
    ctx.extra['exhaustive'] = True
    # adaptor clause, unbounded: DetectEnvelope::next pulls exactly one source frame per output and yields what its detector
    # returns for it (Verus unit envadapt; the detector is a contract-only abstract state machine there)
    ctx.add_trusted('Verus 0.2026.09.13 + Z3 for unit envadapt (Signal trait contract of C04; Detector as an assumed abstract state machine)')
    run_unit(ctx, 'envadapt', search_crate='signal')
    # follower clause, structure for every frame format / channel count / history: Detector::{new, next, set_*} (Verus unit envelope;
    # sample-level operations and the gain value are uninterpreted there: C03 / C01 / C02 and the Kani harnesses below decide them)
    ctx.notes.append('Detector::next verified by Verus for every format and channel count: detector run exactly once, per-channel attack / '
                     'release choice, env_new == detected + (env - detected) * gain channel by channel, result stored and returned; '
                     'Detector::new keeps attack / release apart; the setters change one gain and nothing else')
    run_unit(ctx, 'envelope', search_crate='signal')
    run_kani(ctx, 'peak', harness=['c19_'], harness_timeout='8m')
    env = ['c19_zero_time', 'c19_between', 'c19_set_times', 'c19_gain_mapping', 'c19_per_channel_gain', 'c19_adaptor_detect_envelope', 'c19_constructors', 'c19_clone_keeps_state'] + (['c19_t_'] if ctx.tier == 'thorough' else [])
    run_kani(ctx, 'envelope', harness=env, rustflags='--cfg rustaudio_dasp_verif', harness_timeout='20m',
             soft_timeout=(ctx.tier == 'thorough'))


def prepare_replay(rec):
    build_search('signal')
