"""C19 — rectifiers and envelope follower (DESIGN.md §6 C19)."""
from vlib.kani import run_kani


def run(ctx):
    ctx.level = 'proof'
    ctx.add_trusted('Kani 0.68 / CBMC 6.11 (T1); spec functions amp / rescale (kani/common/spec.rs)')
    ctx.add_assumption('rectifier side condition of the property: the negated signed amplitude is representable (to_signed(s) != MIN)')
    ctx.add_assumption('NOT built in this tree: the Verus(R) proof of the one-pole envelope update (Detector::next, calc_gain, '
                       'set_attack/release_frames) — the envelope clauses of C19 are not decided by this check; only the '
                       'rectifier clause is')
    ctx.notes.append('full_wave / positive_half_wave / negative_half_wave and the three Rectifier types for all 14 formats over the '
                     'full sample domain, on the bare-sample frame and per channel on a 2-channel frame (C03 proves map for every N)')
    ctx.extra['exhaustive'] = True
    run_kani(ctx, 'peak', harness=['c19_'], harness_timeout='8m')
