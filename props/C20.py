"""C20 — window shapes and chunk schedule (DESIGN.md §6 C20)."""
from vlib.vunit import run_unit, build_search
from vlib.kani import run_kani


def run(ctx):
    ctx.level = 'proof'
    ctx.add_trusted('Verus 0.2026.09.13 + Z3; Kani 0.68 / CBMC 6.11 (T1)')
    ctx.add_trusted('T4 float_as_real + assumed cosine facts (|cos| <= 1, cos 0 = 1, cos pi = -1, cos 2pi = 1, cos(2pi - x) = cos x, '
                    'the PI constant is pi): the Hann shape is proved over exact reals; libm cos is not verified')
    ctx.add_assumption('sample format conversions inside Hann/Rectangle::window are uninterpreted (conv_spec; decided by C01/C02)')
    ctx.add_assumption('the phases i/(n-1) sampled by signal::window::Window are covered by the Phase contract of C17 '
                       '(unit osc) and not re-proved here')
    ctx.notes.append('Windower::size_hint verified by Verus against the closed form count(L,b,h); lemma_count_closed_form proves by '
                     'induction that the recurrence implemented by Windower::next yields exactly floor((L-b)/h)+1 chunks for every '
                     'L, b, h; Kani proves next()\'s slice arithmetic for every usize (L, bin, hop) over a zero-sized frame type')
    run_unit(ctx, 'window', search_crate='signal')
    run_kani(ctx, 'window', harness=['c20_windower_next_arith'], harness_timeout='5m')
    if ctx.tier == 'thorough':
        note = ('BOUNDED: windower run to the end for L in {2,3,4} f64 mono frames, every bin in 2..=L+1 and hop in 1..=L+1, '
                'rectangle window: chunk count == closed form, first bin frames of chunk k are frames[k*hop + j] * window')
        ctx.bounded.append(note)
        run_kani(ctx, 'window', harness=['c20_t_chunks'], harness_timeout='20m', tag='default', bounded_note=note)


def prepare_replay(rec):
    build_search('signal')
