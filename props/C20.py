"""C20 — window shapes and chunk schedule (DESIGN.md §6 C20)."""
from vlib.vunit import run_unit, build_search
from vlib.kani import run_kani


def run(ctx):
    ctx.level = 'proof'
    ctx.add_trusted('Verus 0.2026.09.13 + Z3; Kani 0.68 / CBMC 6.11 (T1)')
    ctx.add_trusted('T4 float_as_real + assumed cosine facts (|cos| <= 1, cos 0 = 1, cos pi = -1, cos 2pi = 1, cos(2pi - x) = cos x, '
                    'the PI constant is pi): the Hann shape is proved over exact reals; libm cos is not verified')
    ctx.add_assumption('sample format conversions inside Hann/Rectangle::window are uninterpreted (conv_spec; decided by C01/C02)')
    ctx.add_assumption('the phases i/(n-1) sampled by signal::window::Window are covered by the Phase contract of C17 '
                       '(unit osc) and not re-proved here')
    ctx.notes.append('Windower::size_hint verified by Verus against the closed form count(L,b,h); lemma_count_closed_form proves by '
                     'induction that the recurrence implemented by Windower::next yields exactly floor((L-b)/h)+1 chunks for every '
                     'L, b, h; Kani proves next()\'s slice arithmetic for every usize (L, bin, hop) over a zero-sized frame type')
    run_unit(ctx, 'window', search_crate='signal')
    # a window of n frames samples the phases i/(n-1): Window::new / Window::next live in unit osc, next to the Phase / Rate /
    # ConstHz contracts they are verified against (those callee contracts are discharged in the same run)
    ctx.notes.append('Window::new (phase 0, step * (n-1) == 1) and Window::next (every channel == window function at the CURRENT '
                     'phase, then the phase advances by one step mod 1) verified by Verus (unit osc) over exact reals; '
                     'lemma_window_phases: the i-th frame is W(i/(n-1) mod 1)')
    ctx.add_assumption('Window::new: `len as f64` is read through a helper whose contract is exactness (precondition len < 2^53); '
                       'NOTE: Kani 0.68 / CBMC 6.11 evaluates the f64 `%` operator to 0.0 for every operand (measured), so no Kani '
                       'harness is used for anything that depends on a wrapped phase; Windowed::next is covered by the Kani '
                       'chunk-path harnesses only for the window value of phase 0')
    run_unit(ctx, 'osc', search_crate='signal', only_labels=['Window::new', 'Window::next', 'Phase::next_phase', 'Phase::next_phase_wrapped_to',
                                                             'Rate::const_hz', 'rate', 'phase', 'ConstHz::step'],
             search_map={'Window::new': ['Window::next'], 'Phase::next_phase': ['Window::next'], 'Phase::next_phase_wrapped_to': ['Window::next'],
                         'Rate::const_hz': ['Window::next'], 'rate': ['Window::next'], 'phase': ['Window::next'], 'ConstHz::step': ['Window::next']})
    note0 = ('BOUNDED (concrete shapes, symbolic contents incl. exact silence): chunk data path for (L,b,h) in {(4,3,1),(5,5,2),(6,2,3),(3,4,1)}: '
             'chunk k holds frames k*h..k*h+b-1, the j-th frame of a chunk is multiplied by the j-th window evaluation of that chunk (a probe '
             'window function that counts its evaluations: exactly one per frame, in order), exactly count(L,b,h) chunks; that each '
             'evaluation happens at phase j/(b-1) is the Verus contract of Window::next')
    ctx.bounded.append(note0)
    run_kani(ctx, 'window', harness=['c20_windower_next_arith', 'c20_chunk_path'], harness_timeout='5m')
    if ctx.tier == 'thorough':
        note = ('BOUNDED: windower run to the end for L in {2,3,4} f64 mono frames, every bin in 2..=L+1 and hop in 1..=L+1, '
                'rectangle window: chunk count == closed form, first bin frames of chunk k are frames[k*hop + j] * window')
        ctx.bounded.append(note)
        run_kani(ctx, 'window', harness=['c20_t_chunks'], harness_timeout='20m', tag='default', bounded_note=note)


def prepare_replay(rec):
    build_search('signal')
