"""C04 — adaptors are pointwise, lock-step, one pull per output (DESIGN.md §6 C04)."""
from vlib.vunit import run_unit, build_search
from vlib.kani import run_kani

ADAPTORS = ['RefMut', 'Map', 'ZipMap', 'AddAmp', 'MulAmp', 'ScaleAmp', 'ScaleAmpPerChannel', 'OffsetAmp',
            'OffsetAmpPerChannel', 'ClipAmp', 'Inspect', 'Delay']
CTORS = ['map', 'zip_map', 'add_amp', 'mul_amp', 'offset_amp', 'scale_amp', 'offset_amp_per_channel',
         'scale_amp_per_channel', 'delay', 'clip_amp', 'inspect', 'by_ref']
LABELS = set(['%s::next' % a for a in ADAPTORS] + ['Signal::%s' % c for c in CTORS])


def common(ctx):
    ctx.level = 'proof'
    ctx.add_trusted('Verus 0.2026.09.13 + Z3 (T1)')
    ctx.add_trusted('T2: contracts of the Frame/Sample operations the adaptors call (add_amp, mul_amp, scale_amp, offset_amp, '
                    'map applies its closure once per channel, channels(), from_samples, to_sample) are ASSUMED here as '
                    'uninterpreted spec functions; they are discharged on the real code by the Kani unit sample_frame (C03) '
                    'and conv (C01/C02)')
    ctx.add_trusted('T3: local stand-in for core::iter::Iterator (deterministic state machine, nothing assumed after None); '
                    'user closures are relations call_requires/call_ensures without mutable captured state (Verus closure model)')
    ctx.add_assumption('the trait contract `Signal` (st/inv/trans/exh) is the specification every source is assumed to meet; '
                       'each extracted impl is proved to meet it for arbitrary sources meeting it (composition covers any nesting)')


def frame_contracts(ctx):
    """The Frame-operation contracts the Verus unit ASSUMES (T2) are discharged on the real dasp_frame / dasp_sample code by the
    C03 check for every format and width; a representative slice of it (2-channel i16 and u8 frames: map, zip_map, from_fn,
    from_samples, channels, offset/add, scale/mul) is re-run here so that a change in those crates that breaks THIS property
    is reported by this check too."""
    ctx.notes.append('assumed Frame-operation contracts re-discharged here for [i16; 2] and [u8; 2] (Kani sample_frame c03_q_*_i16_n2 / _u8_n2); '
                     'all formats and widths: C03')
    kinds = ['channels', 'consts_from_fn', 'from_samples', 'map', 'offset_add_signed', 'scale_mul_float', 'zip_map']
    run_kani(ctx, 'sample_frame', harness=['c03_q_%s_%s_n2' % (k, f) for k in kinds for f in ('i16', 'u8')], harness_timeout='10m')


def run(ctx):
    common(ctx)
    ctx.add_assumption('ClipAmp: negated threshold representable (thresh.neg_req()) and the signed companion type obeys the '
                       'vstd specs of <, >, unary - (side conditions of the property itself)')
    run_unit(ctx, 'signal', only_labels=LABELS)
    frame_contracts(ctx)


def prepare_replay(rec):
    build_search('signal')
