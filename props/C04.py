"""C04 — adaptors are pointwise, lock-step, one pull per output (DESIGN.md §6 C04)."""
from vlib.vunit import run_unit, build_search

ADAPTORS = ['RefMut', 'Map', 'ZipMap', 'AddAmp', 'MulAmp', 'ScaleAmp', 'ScaleAmpPerChannel', 'OffsetAmp',
            'OffsetAmpPerChannel', 'ClipAmp', 'Inspect', 'Delay']
CTORS = ['map', 'zip_map', 'add_amp', 'mul_amp', 'offset_amp', 'scale_amp', 'offset_amp_per_channel',
         'scale_amp_per_channel', 'delay', 'clip_amp', 'inspect', 'by_ref']
LABELS = set(['%s::next' % a for a in ADAPTORS] + ['Signal::%s' % c for c in CTORS])


def common(ctx):
    ctx.level = 'proof'
    ctx.add_trusted('Verus 0.2026.09.13 + Z3 (T1)')
    ctx.add_trusted('T2: contracts of the Frame/Sample operations the adaptors call (add_amp, mul_amp, scale_amp, offset_amp, '
                    'map applies its closure once per channel, channels(), from_samples, to_sample) are ASSUMED here as '
                    'uninterpreted spec functions; they are discharged on the real code by the Kani unit sample_frame (C03) '
                    'and conv (C01/C02)')
    ctx.add_trusted('T3: local stand-in for core::iter::Iterator (deterministic state machine, nothing assumed after None); '
                    'user closures are relations call_requires/call_ensures without mutable captured state (Verus closure model)')
    ctx.add_assumption('the trait contract `Signal` (st/inv/trans/exh) is the specification every source is assumed to meet; '
                       'each extracted impl is proved to meet it for arbitrary sources meeting it (composition covers any nesting)')


def run(ctx):
    common(ctx)
    ctx.add_assumption('ClipAmp: negated threshold representable (thresh.neg_req()) and the signed companion type obeys the '
                       'vstd specs of <, >, unary - (side conditions of the property itself)')
    run_unit(ctx, 'signal', only_labels=LABELS)


def prepare_replay(rec):
    build_search('signal')
