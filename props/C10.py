"""C10 — slice views and in-place slice ops (DESIGN.md §6 C10)."""
from vlib.kani import run_kani
from vlib.vunit import run_unit

FLAGS = ['--cbmc-args', '--memory-leak-check']
SEARCH = ('slice', lambda h: 'boxed' if 'boxed' in h else None)


def run(ctx):
    ctx.level = 'model_checking'
    ctx.add_trusted('Kani 0.68 / CBMC 6.11 memory model (pointer identity, bounds, --memory-leak-check) (T1)')
    ctx.add_trusted('T6: the 32 macro instantiations impl_from_slice_conversions!(1..=32) share one text; each N is proved separately')
    ctx.bounded.append('BOUNDED in the slice length: the view harnesses take a symbolic sub-slice of a backing array of 3N+2 samples '
                       '(L <= 3N+2; the conversion bodies are loop-free, L enters only through len % N, len / N, len * N); boxed: '
                       'L <= 2N+1; in-place operations: lengths 0..=4 on 2-channel frames; length mismatch: 5 length pairs')
    # unbounded length: the two-slice in-place operations (zip_map_in_place(_unchecked), write, add_in_place) are verified by Verus
    # to equal the element-wise frame operation for EVERY length; a length mismatch never returns normally
    ctx.add_trusted('Verus 0.2026.09.13 + Z3 for unit slice_inplace (Frame-operation contracts assumed as in C04: C03 discharges them)')
    ctx.add_assumption('NOT in the Verus unit: map_in_place / equilibrium (`for f in a` over &mut [F] is outside the Verus subset) and '
                       'add_in_place_with_amp_per_channel (needs a bound the shared prelude cannot state): those three stay with the '
                       'bounded Kani harnesses (lengths 0..=4)')
    run_unit(ctx, 'slice_inplace', search_crate='slice')
    if ctx.tier == 'quick':
        ctx.bounded.append('quick tier: N in {1,2,3,8,32} for i16 and N in {2,31} for u8, f32, I24; thorough enumerates N = 1..=32 x 4 formats')
        run_kani(ctx, 'slice', harness=['c10_q_'], flags=FLAGS, harness_timeout='8m', search=SEARCH)
    else:
        ctx.extra['exhaustive_in_N'] = True
        run_kani(ctx, 'slice', harness=['c10_q_'], flags=FLAGS, harness_timeout='20m', search=SEARCH)
        # deep tier: a shape that does not finish within the harness timeout is reported NOT COVERED (measured: boxed N = 32
        # with the leak check did not finish in 20 min), never as a verdict
        run_kani(ctx, 'slice', harness=['c10_t_'], flags=FLAGS, harness_timeout='20m', wall_timeout=4 * 3600, search=SEARCH,
                 soft_timeout=True)


def prepare_replay(rec):
    from vlib.vunit import build_search
    build_search('slice')
