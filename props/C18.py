"""C18 — sinc interpolation (DESIGN.md §6 C18): bounded index safety / priming / reset, and ratio-1 transparency under a tabulated libm contract."""
from vlib.kani import run_kani


def run(ctx):
    ctx.level = 'model_checking'
    ctx.add_trusted('Kani 0.68 / CBMC 6.11 (T1); sin/cos are over-approximated by CBMC (any value in [-1, 1])')
    note = ('BOUNDED: quick: depth in {1,2}, x in {0.0, 0.5}; thorough adds depth 3 and symbolic x in [0,1) for depth 1,2; 0..=depth+2 fed '
            'frames (each count its own harness), ring start offset 0, symbolic finite f64 mono frames with |v| <= 1; sin/cos stubbed by an '
            'arbitrary value in [-1,1]')
    ctx.bounded.append(note)
    ctx.bounded.append('BOUNDED: transparency at ratio exactly 1 (interpolate(0.0) after K fed frames == the frame fed depth frames earlier, '
                       'silence while priming): i32 frames EXACTLY (every i32 history) and f64 frames within 1e-12 x peak (every finite '
                       'history with |v| <= 1), depth 1 and 2 (3 in the thorough tier), K up to depth + 3')
    ctx.add_assumption('ASSUMED CONTRACT ON libm for the transparency harnesses: at the only arguments reached when x == 0 (k*PI, k*PI/depth) '
                       'sin / cos return the values tabulated in kani/sinc/src/lib.rs (glibc values: |sin(fl(k PI))| < 4e-16, cos(fl(PI)) == -1, ...); '
                       'at any other argument the stub returns an arbitrary value in [-1, 1]')
    ctx.add_assumption('OUT OF REACH, NOT claimed: linearity within rounding, finiteness, 1 % constant reproduction, and transparency for '
                       'depth > 3 — they depend on libm sin/cos values at arbitrary arguments (Kani over-approximates them, Verus leaves them uninterpreted)')
    ctx.add_assumption('hooks Sinc::verif_idx / verif_frames (cfg rustaudio_dasp_verif) expose the private state read-only')
    hs = ['c18_b_', 'c18_new_'] + (['c18_t_'] if ctx.tier == 'thorough' else [])
    run_kani(ctx, 'sinc', harness=hs, rustflags='--cfg rustaudio_dasp_verif', harness_timeout='15m', bounded_note=note)
