"""C18 — sinc interpolation (DESIGN.md §6 C18): bounded index safety / priming / reset only."""
from vlib.kani import run_kani


def run(ctx):
    ctx.level = 'model_checking'
    ctx.add_trusted('Kani 0.68 / CBMC 6.11 (T1); sin/cos are over-approximated by CBMC (any value in [-1, 1])')
    note = ('BOUNDED: quick: depth in {1,2}, x in {0.0, 0.5}; thorough adds depth 3 and symbolic x in [0,1) for depth 1,2; 0..=depth+2 fed '
            'frames (each count its own harness), ring start offset 0, symbolic finite f64 mono frames with |v| <= 1; sin/cos stubbed by an '
            'arbitrary value in [-1,1]')
    ctx.bounded.append(note)
    ctx.add_assumption('OUT OF REACH, NOT claimed: 1e-12 transparency at ratio 1, linearity within rounding, finiteness, 1 % constant '
                       'reproduction — they depend on libm sin/cos values (Kani over-approximates them, Verus leaves them uninterpreted)')
    ctx.add_assumption('hooks Sinc::verif_idx / verif_frames (cfg rustaudio_dasp_verif) expose the private state read-only')
    hs = ['c18_b_', 'c18_new_'] + (['c18_t_'] if ctx.tier == 'thorough' else [])
    run_kani(ctx, 'sinc', harness=hs, rustflags='--cfg rustaudio_dasp_verif', harness_timeout='15m', bounded_note=note)
