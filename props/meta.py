"""Manifest metadata (tools/gen_manifest.py turns it into MANIFEST.json)."""
HOOK_COMMITS = []
ENGINES = [
    dict(name='verus-extract', path='/verif/vlib', serves_properties=['C06'],
         kind_free_text='Verus 0.2026.09.13 on functions extracted mechanically from /repo on every run, contracts injected from /verif/units/<unit>/unit.rs'),
]
NOTES = ('Contract-based deductive verification. exit 0 = all obligations discharged; exit 1 = VIOLATION; '
         'exit 2 = undecided (lost anchor / unsupported construct / timeout), never an alarm. See DESIGN.md.')
NOT_APPLICABLE = {
    'C09': 'graph traversal lives in petgraph (DfsPostOrder) behind HRTB + raw pointers; Verus cannot parse it and a contract would only restate assumed petgraph contracts; Kani on real petgraph measured: no result in 15 min for 3 nodes (DESIGN.md §7)',
    'C13': 'bus state is BTreeMap+VecDeque behind Rc<RefCell> driven by std iterator closures: no Verus model, Kani measured >10 min for 2 outputs x 2 ops (DESIGN.md §7)',
}
CHECKS = {
    'C06': dict(
        engine='verus-extract',
        category='proof',
        technique='Verus function contracts + representation invariant over an abstract queue view, on functions extracted from dasp_ring_buffer each run',
        text='Every public non-iterator operation of Fixed and Bounded is verified by Verus against a postcondition over the whole abstract view (oldest-first sequence) from every state satisfying the representation invariant; since each operation re-establishes the invariant this covers every capacity and every history. Unchecked accesses are proof obligations.',
        note='Trusted: Verus/Z3; Slice/SliceMut trait contract; specs of mem::replace, get_unchecked(_mut), ptr::read/write on Copy; slice length <= isize::MAX (T5). std-iterator views (iter, iter_loop, iter_mut) are outside Verus and are covered only by the bounded part listed in the evidence.',
    ),
}
