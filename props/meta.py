"""Manifest metadata (tools/gen_manifest.py turns it into MANIFEST.json)."""
HOOK_COMMITS = ['621a573', '7ae3ccb', 'fa7b761']
ENGINES = [
    dict(name='verus-extract', path='/verif/vlib', serves_properties=['C04', 'C05', 'C06', 'C08', 'C10', 'C12', 'C13', 'C14', 'C15', 'C17', 'C19', 'C20'],
         kind_free_text='Verus 0.2026.09.13 on functions extracted mechanically from /repo on every run, contracts injected from /verif/units/<unit>/unit.rs'),
    dict(name='kani-contracts', path='/verif/kani', serves_properties=['C01', 'C02', 'C03', 'C06', 'C07', 'C08', 'C10', 'C11', 'C15', 'C16', 'C17', 'C18', 'C19', 'C20'],
         kind_free_text='Kani 0.68 function contracts (proof_for_contract) and loop-free full-domain harnesses on the real crates of /repo (path dependencies), CBMC 6.11'),
]
NOTES = ('Contract-based deductive verification. exit 0 = all obligations discharged; exit 1 = VIOLATION; '
         'exit 2 = undecided (lost anchor / unsupported construct / timeout), never an alarm. See DESIGN.md.')
NOT_APPLICABLE = {
    'C09': 'graph traversal lives in petgraph (DfsPostOrder) behind HRTB + raw pointers; Verus cannot parse it and a contract would only restate assumed petgraph contracts; Kani on real petgraph measured: no result in 15 min for 3 nodes; a second attempt on a minimal array-backed graph type implementing the petgraph traits (design_probes/kani_graph_proc): one CONCRETE 2-node graph verifies in 7 s, any symbolic adjacency, an in-harness enumeration of the 81 two-node multigraphs and a nested GraphNode all exceed 20 min (DESIGN.md §7, §11.7)',
}
CHECKS = {
    'C13': dict(
        engine='verus-extract', category='proof',
        technique='Verus: SharedNode::{next_frame, pending_frames, drop_output}, Bus::send and the Output methods extracted and verified against an abstract view, with contract-only stand-ins for BTreeMap/VecDeque; inductive-step lemmas with a ghost history',
        text='The three functions that hold the bus logic are verified (on the extracted text, six std-iterator/indexing expressions read through stand-in helper methods) to preserve the invariant "every read count is within the backlog and, when the backlog is non-empty, some live output has read none of it" and to meet a per-call contract: an output at the end of the backlog pulls exactly one source frame, any other output pulls none and receives backlog[its count]; the oldest frame is released exactly when the caller was the only output still needing it; dropping an output trims the backlog to what the slowest remaining output needs (empty when none remain). lemma_bus_next shows from this contract that every output observes the common history at its own position without loss, duplication or reordering and that the source is pulled once per distinct frame; pending count == frames pulled but not yet received.',
        note='ASSUMED: contracts of the std collections (stand-ins) and of the six substituted iterator expressions; Bus::send is verified on its body minus the RefCell borrow line (new output registered at buffer.len() under a fresh key, nothing else changed); the Output methods are verified to forward with their own key; NOT verified: the Rc<RefCell> handle and drop glue. Proof of the step relation from every state satisfying the invariant (covers every finite op sequence through those three functions).',
        design_ref='DESIGN.md §11.9',
    ),
    'C07': dict(
        engine='kani-contracts', category='model_checking',
        technique='allocator put under contract: std::alloc entry points stubbed with precondition `!STEADY`; bounded Kani harnesses over a stated API surface',
        text='BOUNDED: after construction, the listed operations of the sample, frame, borrowed-slice, ring-buffer, peak, RMS, envelope, interpolation, window and signal APIs never reach the allocator (allocation or reallocation) on any path for symbolic inputs; ring buffers are checked from every valid (start,len) state so one call covers every history of those operations.',
        note='Surface stated in the evidence (it includes the stock graph nodes Sum / SumBuffers / Pass / BoxedNode called directly); frees are not intercepted; bus, graph TRAVERSAL (Processor, GraphNode: petgraph), by_rc, boxed conversions, libm-based oscillators not covered. Model checking over short call sequences, not proof.',
    ),
    'C16': dict(
        engine='kani-contracts', category='model_checking',
        technique='bounded Kani harnesses calling Node::process of the stock nodes directly (guarded hook Input::verif_new), bit-precise f32, enumerated shapes',
        text='BOUNDED: for the enumerated shapes (see evidence) Pass copies the first input\'s buffers onto the corresponding outputs and leaves surplus outputs untouched (also with no input); Sum writes to each output channel the sample-wise sum of that channel over the inputs that have it and silence otherwise; SumBuffers writes the sum of all buffers; Delay delays by the ring length (two calls, state carried, in the thorough tier); a `dyn Signal` node writes successive frames de-interleaved into min(CHANNELS, outputs) buffers; &mut, Box, BoxedNode, BoxedNodeSend, fn pointer, dyn FnMut and dyn Fn wrappers behave as the wrapped node.',
        note='Bounded shapes only; nested GraphNode not covered (petgraph). These nodes run the crates.io 0.11.0 dasp_slice/ring_buffer (T7). Model checking, not proof.',
    ),
    'C18': dict(
        engine='kani-contracts', category='model_checking',
        technique='bounded Kani harnesses on the real Sinc interpolator (state observed through guarded read-only hooks); ratio-1 transparency under an assumed, tabulated contract on libm sin/cos at the arguments reached for x == 0',
        text='BOUNDED, PARTIAL: for depth 1..2 (3 in the thorough tier) and every number 0..=depth+2 of fed frames with symbolic finite contents: next_source_frame pushes exactly one frame and idx counts up to depth; interpolate performs no index underflow, out-of-range access or panic (x in {0, 0.5}; symbolic x in [0,1) in the thorough tier); reset restores idx = 0, first = 0 and all-equilibrium frames; Sinc::new rejects odd lengths. Transparency at ratio exactly 1: after K fed frames interpolate(0.0) yields the frame fed depth frames earlier (silence while priming) EXACTLY for every i32 history and within 1e-12 x peak for every finite f64 history, depth 1..2 (3 thorough). Linearity, finiteness and the 1 % constant reproduction are NOT decided.',
        note='sin/cos are stubbed: arbitrary values in [-1,1] for the safety harnesses; for the transparency harnesses the glibc values at k*PI and k*PI/depth (ASSUMED contract on libm, listed in the evidence), arbitrary elsewhere. Bounded depth and history. Model checking, not proof.',
    ),
    'C10': dict(
        engine='kani-contracts', category='model_checking',
        technique='Kani per-N harnesses on the real macro-generated conversions (pointer identity, bounds, CBMC memory-leak check); Verus contracts (unit slice_inplace) for the two-slice in-place operations at every length; bounded Kani harnesses for map_in_place / equilibrium / the per-channel-gain variant',
        text='For each N the shared and mutable views are checked for a symbolic sub-slice (length L <= 3N+2) of symbolic contents: Some iff N | L, L/N frames in the very same memory, channel c of frame i is sample i*N+c, a write through the frame view lands in exactly that sample, and to_sample_slice/from_frame_slice is the exact inverse; boxed conversions reuse the allocation and leak nothing on success or failure (CBMC --memory-leak-check); zip_map_in_place(_unchecked), write and add_in_place are PROVED (Verus, extracted text) to equal the element-wise frame operation for EVERY length and to return only for equal lengths; map_in_place, equilibrium and add_in_place_with_amp_per_channel equal it for lengths 0..=4 (Kani), and a length mismatch panics before any element is touched (Kani). Exhaustive in N (thorough tier), bounded in L: labelled model checking, not proof.',
        note='Bounded in slice length (the conversion code is loop-free and L enters only via %, /, *). Quick tier covers 11 (format, N) pairs; thorough all N = 1..=32 x {i16,u8,f32,I24}. In-place loops: lengths <= 4 only.',
    ),
    'C11': dict(
        engine='kani-contracts', category='proof',
        technique='Kani bit-precise full-domain harnesses on the no_std build of dasp_sample (exact mantissa/exponent comparison); bounded Kani harnesses on the real Rms over dyadic samples (exact arithmetic) for the window clause',
        text='PARTIAL: decides the no_std square-root clause of C11: for every finite normal x >= 0 the approximation reached through FloatSample::sample_sqrt (dasp_sample built with default-features = false) satisfies 0.93^2 x <= r^2 <= 1.07^2 x, for f32 and f64, is at most 1e-18 for zero and subnormal input and NaN for negative input. BOUNDED part: for window lengths 1..3, histories of up to N+2 frames with an optional reset, also starting from a non-zero window, the output EQUALS the root of the mean of the last N squares (earlier ones counted as zero) for dyadic samples whose squares and sums are exact in f32.',
        note='Not claimed: unbounded window length / history (no Verus unit rms), rigorous float error bound of the running sum; non-negativity / NaN-freedom only on the bounded i16 harness (window 2, every history x1, x2, 0, 0). -0.0 excluded (unreachable from a mean of squares).',
    ),
    'C19': dict(
        engine='kani-contracts', category='proof',
        technique='Kani full-domain harnesses per sample format for the rectifiers; Verus contracts on Detector::{new, next, set_attack_frames, set_release_frames} (unit envelope, every frame format) and on the detect_envelope adaptor (unit envadapt); Kani bit-precise harnesses on the real Detector (gains read through a guarded hook)',
        text='PARTIAL: decides the rectifier clause of C19: for all 14 formats and every sample whose negated signed amplitude is representable, full_wave yields |signed amplitude| about equilibrium, positive/negative half-wave yield the sample limited to the upper/lower side of equilibrium, per channel, also through the FullWave/PositiveHalfWave/NegativeHalfWave Rectifier types. Detector::next is PROVED (Verus, extracted text, sample operations uninterpreted) for every frame format, channel count and history to run its detector exactly once, choose attack or release per channel, compute detected + (previous - detected) * gain channel by channel, and store what it returns. Bit-precise part (f32 frames, dyadic inputs so that differences are exact): a time of 0 frames gives gain exactly 0 and the envelope equals the detected value; any time in [1/8, 1e6] frames gives a gain in (0,1); set_attack/release_frames change only that gain and no past output; the attack/release choice is made PER CHANNEL on 2-channel frames (bit-exact rule where the chosen gain is 0, between-ness and use of the non-zero gain otherwise); thorough tier: new_env == d + g (env - d) bit-exactly from every state reachable in one step.',
        note='The VALUE exp(-1/frames) is libm powf and not verified. Envelope harnesses are bounded to two steps from the initial state with concrete attack/release times (3, 7, 0 frames); no Verus unit envelope (unbounded histories follow from the per-step rule, which is checked from reachable states only).',
    ),
    'C17': dict(
        engine='verus-extract', category='proof',
        technique='Verus over idealised reals (Step/Phase/Sine/Saw/Square contracts, congruence lemma) + Kani bit-precise full-domain harnesses (noise for every seed; saw, square from every phase state via a guarded hook; step == correctly rounded hz / rate for concrete rates). The phase wrap is decided by Verus only (Kani/CBMC evaluates f64 % to 0.0)',
        text='Phase::next_phase(_wrapped_to) is verified to yield the current phase and advance it by exactly one step of its step source, wrapped into [0, rem) and congruent to phase + step (real modulus); Hz::step consumes exactly one frequency frame and yields frequency / rate; Sine/Saw/Square yield sin(2 pi p), 1 - 2p, +-1 by half-cycle and advance the phase as Phase does; lemma_phase_accumulates: the phase after n frames is the sum of steps mod 1. Kani proves bit-precisely that the noise output is within [-1,1] and never panics for every u64 seed, that next_phase yields the current phase bit-for-bit from every phase state, that saw is in (-1,1] and square is +-1 by half-cycle, and that ConstHz / Hz steps are bit-for-bit the correctly rounded quotient hz / rate for rate 49 (every finite f32-valued frequency; rate 44100 and every f64 frequency in the thorough tier).',
        note='Phase arithmetic PROVED OVER EXACT REALS (T4; f64 % read as the real modulus — Kani cannot cross-check it: CBMC 6.11 evaluates f64 % to 0.0). sin assumed to be the sine. NOT claimed: simplex noise amplitude; purity of the noise is bounded to 768 seeds (c17_b_noise_pure).',
    ),
    'C20': dict(
        engine='verus-extract', category='proof',
        technique='Verus: size_hint contract against the closed-form chunk count, inductive lemma closed form == recurrence, Hann/Rectangle shapes and Window::new / Window::next (phases i/(n-1)) over idealised reals; Kani: next() slice arithmetic for every usize triple, bounded chunk data path',
        text='Windower::size_hint (extracted) is verified to bracket count(L,b,h) = floor((L-b)/h)+1 (0 if L<b); lemma_count_closed_form proves by induction on L that the recurrence Windower::next implements (a chunk iff b <= L, then L-h frames) yields exactly that count for every L, b, h; Kani proves next() implements that recurrence for every usize (L, bin, hop). Hann::window is verified to compute 0.5(1-cos(2 pi p)) and lemmas show it lies in [0,1], is 0 at both ends, 1 at 0.5 and symmetric; Rectangle::window is the identity gain everywhere. Window::new(n) starts at phase 0 with step*(n-1) == 1 and Window::next puts the value of the window function at the CURRENT phase into every channel and advances the phase by one step mod 1 (unit osc); lemma_window_phases: frame i is W(i/(n-1) mod 1).',
        note='Hann shape PROVED OVER EXACT REALS with assumed cosine facts (T4). The data path of a chunk (frames k*h+j multiplied once by the window value) is covered by bounded Kani harnesses only (4 concrete shapes in the quick tier, L <= 4 with symbolic bin/hop in the thorough tier), and under Kani only for the window value of phase 0 (CBMC evaluates f64 % to 0.0). Windowed::next itself is not under a Verus contract (closure capturing &mut).',
    ),
    'C08': dict(
        engine='verus-extract', category='proof',
        technique='Verus over idealised real arithmetic (float_as_real axioms): Converter::next loop invariant, Interpolator trait contract, position lemmas; Kani bit-precise full-domain harnesses for Linear/Floor on integer sample formats',
        text='Converter::next is verified (extracted text) to pull exactly floor(v) source frames, feed them to the interpolator in order, evaluate it at v - floor(v) and advance v by the ratio in effect; is_exhausted <=> source exhausted and v >= 1. lemma_position_step shows the invariant pulled + v == P_n, hence pulled == floor(P_n) and fraction P_n - floor(P_n), no frame skipped or re-read; MulHz consumes exactly one control frame per output; Floor yields the latest frame, Linear the per-channel blend l + (r - l) x which stays between l and r for 0 <= x < 1 and equals l at x == 0; ratio exactly 1 pulls one frame per output at fraction 0. Kani (integer formats u8, i16, i32, u32, every value): Linear at x == 0 reproduces the left frame exactly, the blend at x = 1/4, 1/2, 3/4 lies between the two frames, feeding shifts right to left, reset silences, Floor holds the last frame for every x.',
        note='PROVED OVER EXACT REALS (T4): float rounding of the accumulator is outside the claim. Termination of the pull loop unchecked (T8). The closed-form output count is not claimed. Frame/Sample operation contracts assumed (C03). One-LSB closeness of integer blends at x != 0 is only searched natively; i64/u64 frames not covered (53-bit limit of the f64 blend).',
    ),
    'C03': dict(
        engine='kani-contracts', category='proof',
        technique='Kani full-domain harnesses per sample format; per-N harnesses for [S; N] with recording closures (observable call sequence) and unwinding assertions',
        text='Sample laws for all 14 formats over every sample value: offset by zero is the identity, scale by 0.0 is equilibrium, scale by 1.0 is exact or within float precision as the format dictates, offset equals addition on the signed conversion re-centred for unsigned formats (stated with the C01 spec function), scale equals multiplication on the float conversion. Frames: map/zip_map call their closure exactly once per channel in channel order and store result i in channel i; from_fn, from_samples (Some iff N samples, min(len,N) items consumed), channels/channel/channel_mut/unchecked access, EQUILIBRIUM/CHANNELS, amplitude operations equal the per-channel sample operation; bare samples behave as 1-channel frames. Each harness is complete for its N (loops unrolled N+2, unwinding assertions on).',
        note='Per-instantiation proof (T6): quick tier covers a subset of (format, N), thorough enumerates N = 1..=32 for 6 formats. General scale law restricted to power-of-two gains (symbolic float multipliers do not terminate); products assumed within [-1,1).',
    ),
    'C15': dict(
        engine='kani-contracts', category='proof',
        technique='Kani full-domain harnesses in two builds (debug assertions on / off) + Verus proof of the wrap loops extracted by instantiating the new_sample_type! macro arm',
        text='For each of the 8 types: new() is Some iff in range, Ord/Eq coincide with numeric order, every widening From preserves the value (Kani, all operand values). Debug build: +,-,*,neg are exact when the mathematical result is in range and ALWAYS panic otherwise (code after the operation proved unreachable). Release build: +,-,neg (and * for the 11/24-bit types, wrap loops fully unrolled) are in range and congruent to the exact result mod 2^bits. From<Rep> / wrap_overflow / wrap_overflow_once are proved by Verus for every Rep value (loop invariant + decreases), which also covers * of the 20/48-bit types by composition.',
        note='Trusted: Kani/CBMC, Verus/Z3. Release semantics selected with -C debug-assertions=off (asserted by a harness); Kani\'s `attempt to multiply with overflow` at self.0 * other.0 is whitelisted in the release Mul harnesses only.',
    ),
    'C12': dict(
        engine='verus-extract', category='proof',
        technique='Verus: per-call contract of the macro-instantiated branch bodies over an abstract view (queue, pending flag); inductive-step lemma with ghost history and positions',
        text='The four `next` and four `pending_frames` bodies generated by define_branch! are extracted by instantiating the macro arm and verified against a per-call contract (lagging branch pops the oldest waiting frame without touching the source; a branch at the head pulls exactly one source frame and queues it for the other). lemma_fork_step proves that from any state satisfying the fork invariant, any next() whose lead stays within the capacity yields that branch\'s next frame of the common history, pulls the source iff the branch is at the head, and keeps the invariant; lemma_pending_is_lag: pending count == lag. Holds for every capacity >= 1 and every interleaving (step relation from every state).',
        note='The Bounded queue contracts the unit relies on are discharged on the real bodies in the same check (unit ring_buffer, restricted to push/pop/len/max_len/is_empty/is_full). Assumed: Signal contract of the source. Rc/RefCell sharing of by_rc/by_ref is read through stand-ins (R-refcell).',
    ),
    'C14': dict(
        engine='verus-extract', category='proof',
        technique='Verus: Buffered::next/next_frames verified against the callee CONTRACT of ring_buffer::Bounded and the Signal trait contract; loop invariants with a ghost chain of source states',
        text='Buffered::next is verified to yield the oldest buffered frame without touching the source when the ring buffer is non-empty, and otherwise to pull exactly capacity source frames in order, yield the first and keep the rest; next_frames refills if and only if empty and its iterator pops that very buffer; is_exhausted <=> buffer empty and source exhausted. The precondition is only the ring buffer representation invariant, so every capacity, pre-fill and start offset is covered; the outer loop is proved to terminate.',
        note='The Bounded push/pop/len/max_len contracts the unit relies on are discharged on the real bodies in the same check (unit ring_buffer). Assumed: Signal trait contract of the source, T3.',
    ),
    'C01': dict(
        engine='kani-contracts', category='proof',
        technique='Kani function contracts (requires/ensures on wrappers of the real conv functions) proved by proof_for_contract over the full symbolic domain; spec-function lemmas',
        text='For each of the 132 ordered pairs of integer formats a contract `amp(r) == rescale(amp(s), sb, db) and r in range` is proved by CBMC for every in-range source value (loop-free code, so the proof is complete, not bounded); the public Sample::to_sample/from_sample dispatch is proved to reach the same function; lossless widening, equilibrium/extremes, order and path independence are proved of the spec function for every width triple.',
        note='Trusted: Kani/CBMC/SAT solver and their model of Rust integer casts and shifts; the i128 spec functions in kani/common/spec.rs. Custom-width inputs are assumed to satisfy their type invariant.',
    ),
    'C02': dict(
        engine='kani-contracts', category='proof',
        technique='Kani function contracts with bit-precise IEEE-754 semantics; results compared with pure-integer oracles (round to p significant bits, truncation of the exact product)',
        text='48 contracts (12 integer formats x {f32,f64}, both directions) proved over every integer value / every float in [-1,1): int->float is the correctly rounded quotient (hence exact when the width fits the mantissa, within [-1,1]), float->int is the truncated exact product and in range; order preservation over two symbolic inputs; exact inverse where exact; f32->f64 exact, f64->f32 nearest-even.',
        note='Trusted: CBMC float model; integer oracles in kani/common/spec.rs. float->int contracts require the documented domain [-1,1).',
    ),
    'C04': dict(
        engine='verus-extract', category='proof',
        technique='Verus: contract on the trait Signal (state machine st/inv/trans/exh); every extracted `impl Signal for <adaptor>` verified against it for arbitrary sources',
        text='Each adaptor next() is verified (on the text extracted from dasp_signal) to make exactly one transition of each source and to yield the corresponding frame operation of the source frame(s); Delay does not touch its source while emitting silence; &mut S forwards the state. Because adaptors are proved for any source meeting the contract and themselves meet it, every finite nesting is covered by composition.',
        note='Assumed: contracts of the Frame/Sample operations (uninterpreted spec functions, discharged by C03/C01/C02 units where built), Verus closure model, local Iterator stand-in. ClipAmp needs neg(thresh) representable.',
    ),
    'C05': dict(
        engine='verus-extract', category='proof',
        technique='Verus: exhaustion predicate exh(state) in the Signal trait contract; iterator state machine; inductive lemmas',
        text='is_exhausted of every adaptor is verified equal to the specified combination of its sources (OR for combining adaptors, countdown for delay); FromIterator/FromInterleavedSamplesIterator are verified to yield the look-ahead, pull exactly one more item (N samples, dropping a partial frame) and to be a silent fixpoint once exhausted (no fused-iterator assumption); UntilExhausted, Take, IntoInterleavedSamples::next_sample (recursive, with decreases) are verified; lemmas by induction give "exactly the iterator items, then equilibrium forever".',
        note='Same trusted base as C04. `lift` itself (FnOnce composition) is covered through its parts only.',
    ),
    'C06': dict(
        engine='verus-extract',
        category='proof',
        technique='Verus function contracts + representation invariant over an abstract queue view, on functions extracted from dasp_ring_buffer each run',
        text='Every public non-iterator operation of Fixed and Bounded is verified by Verus against a postcondition over the whole abstract view (oldest-first sequence) from every state satisfying the representation invariant; since each operation re-establishes the invariant this covers every capacity and every history. Unchecked accesses are proof obligations.',
        note='Trusted: Verus/Z3; Slice/SliceMut trait contract; specs of mem::replace, get_unchecked(_mut), ptr::read/write on Copy; slice length <= isize::MAX (T5). std-iterator views (iter, iter_loop, iter_mut) are outside Verus and are covered only by the bounded part listed in the evidence.',
    ),
}
