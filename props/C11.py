"""C11 — windowed RMS (DESIGN.md §6 C11)."""
import os
from vlib.kani import run_kani
from vlib.vunit import run_unit, build_search
from vlib.common import VERIF


def run(ctx):
    ctx.level = 'proof'
    ctx.add_trusted('Kani 0.68 / CBMC 6.11 bit-precise IEEE-754 (T1); integer oracle (exact mantissa/exponent comparison) in '
                    'kani/sqrt_nostd/src/lib.rs')
    ctx.add_assumption('no_std clause: stated for finite x >= +0.0 (negative zero excluded: a mean of squares is never -0.0); '
                       'normal x: 0.93^2 x <= r^2 <= 1.07^2 x; zero / subnormal x: 0 <= r <= 1e-18; negative x: NaN')
    ctx.add_assumption('OUT OF REACH, not claimed: a rigorous floating-point error bound on the running sum after many window '
                       'turnovers; non-negativity / NaN-freedom beyond the bounded i16 harness (window 2, 4 frames)')
    if os.path.isdir(os.path.join(VERIF, 'units', 'rms')):
        run_unit(ctx, 'rms', search_crate='signal')
    else:
        ctx.add_assumption('NOT built in this tree: the Verus(R) proof of the running-sum invariant of Rms::next_squared; this check '
                           'decides the no_std square-root clause only')
    run_kani(ctx, 'sqrt_nostd', harness=['c11_'], harness_timeout='10m')
    # bounded, exact-arithmetic check of the running window (std build)
    note = ('BOUNDED: Rms over [f32;1] frames, window N = 1 (quick) / 1..=3 (thorough), histories of N+2 frames with a reset at a '
            'symbolic position, dyadic samples k/8 (all f32 arithmetic exact): next_squared == mean of the last N squares '
            '(earlier ones counted as 0), >= 0, reset restores the zero state, current() is its square root within 1e-4')
    ctx.bounded.append(note)
    ctx.bounded.append('BOUNDED: the signal::rms adaptor feeds each of 3 symbolic source frames exactly once and in order to the running RMS '
                       '(outputs bit-equal to a directly driven Rms; pull count; exhaustion is the source\'s)')
    ctx.bounded.append('BOUNDED: never negative / never NaN for i16 frames (inexact f32 squares), window 2, every history x1, x2, 0, 0 '
                       '(c11_b_rms_never_negative_i16: the clamp of the running sum is exercised by absorbed small squares)')
    hs = ['c11_b_rms', 'c11_adaptor_rms'] + (['c11_t_rms'] if ctx.tier == 'thorough' else [])
    run_kani(ctx, 'envelope', harness=hs, rustflags='--cfg rustaudio_dasp_verif', harness_timeout='25m', bounded_note=note,
             soft_timeout=(ctx.tier == 'thorough'))
