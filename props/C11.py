"""C11 — windowed RMS (DESIGN.md §6 C11)."""
import os
from vlib.kani import run_kani
from vlib.vunit import run_unit, build_search
from vlib.common import VERIF


def run(ctx):
    ctx.level = 'proof'
    ctx.add_trusted('Kani 0.68 / CBMC 6.11 bit-precise IEEE-754 (T1); integer oracle (exact mantissa/exponent comparison) in '
                    'kani/sqrt_nostd/src/lib.rs')
    ctx.add_assumption('no_std clause: stated for finite x >= +0.0 (negative zero excluded: a mean of squares is never -0.0); '
                       'normal x: 0.93^2 x <= r^2 <= 1.07^2 x; zero / subnormal x: 0 <= r <= 1e-18; negative x: NaN')
    ctx.add_assumption('OUT OF REACH, not claimed: a rigorous floating-point error bound on the running sum after many window '
                       'turnovers and NaN-freedom in float arithmetic')
    if os.path.isdir(os.path.join(VERIF, 'units', 'rms')):
        run_unit(ctx, 'rms', search_crate='signal')
    else:
        ctx.add_assumption('NOT built in this tree: the Verus(R) proof of the running-sum invariant of Rms::next_squared; this check '
                           'decides the no_std square-root clause only')
    run_kani(ctx, 'sqrt_nostd', harness=['c11_'], harness_timeout='10m')
