"""C12 — fork gives both branches the identical stream under every pull interleaving (DESIGN.md §6 C12)."""
from vlib.vunit import run_unit, build_search
from props.C04 import common


def run(ctx):
    common(ctx)
    ctx.add_trusted('callee contract of ring_buffer::Bounded (push/pop/len/is_empty), verified on the real bodies by unit ring_buffer (C06)')
    ctx.add_assumption('R-refcell: `self.shared_fork.borrow_mut()` is removed and the shared state is a `&mut ForkShared` parameter: '
                       'dynamic borrow checks, reference counting and the aliasing of one cell by both branches are NOT verified; '
                       'Fork::by_rc / by_ref are verified against local Rc / RefCell stand-ins (the split hands both branches the '
                       'shared state unchanged)')
    ctx.notes.append('the 8 macro-instantiated bodies (define_branch! x {A,B} x {Rc,Ref}: next, pending_frames) are extracted by '
                     'instantiating the macro arm textually; lemma_fork_step proves the interleaving property by induction step '
                     'over the per-call contract (ghost history h and positions pa, pb), for every capacity >= 1')
    sm = {}
    for t in ('BranchRefA', 'BranchRefB', 'BranchRcA', 'BranchRcB'):
        sm['%s::next' % t] = ['%s::next' % t]
        sm['%s::pending_frames' % t] = ['%s::next' % t]
    sm['Signal::fork'] = ['BranchRefA::next']
    sm['Fork::by_rc'] = ['BranchRcA::next']
    sm['Fork::by_ref'] = ['BranchRefA::next']
    run_unit(ctx, 'fork', search_crate='signal', search_map=sm)
    # the unit above ASSUMES the contracts of the Bounded queue operations it calls; they are discharged on the real bodies by
    # unit ring_buffer, which is therefore run here as well (restricted to those operations), so that a change inside the ring
    # buffer that breaks this property is reported by this check too
    run_unit(ctx, 'ring_buffer', only_labels=['Bounded::push', 'Bounded::pop', 'Bounded::len', 'Bounded::max_len',
                                             'Bounded::is_empty', 'Bounded::is_full', 'Bounded::from_raw_parts', 'Bounded::from', 'Bounded::from_full'])


def prepare_replay(rec):
    build_search('signal')
    build_search('ring_buffer')
