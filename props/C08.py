"""C08 — rate converter position and consumption (DESIGN.md §6 C08)."""
from vlib.vunit import run_unit, build_search
from vlib.kani import run_kani
from props.C04 import common


def run(ctx):
    common(ctx)
    ctx.add_trusted('T4 float_as_real: f64 +, -, *, /, comparisons are exact real arithmetic (axiom group float_as_real; '
                    'must-fail probe mustfail_float_axioms_consistent runs every time). The interpolation position is therefore the '
                    'EXACT sum of the ratios; accumulated rounding of a non-dyadic ratio is outside the claim')
    ctx.add_assumption('T8: termination of the `while interpolation_value >= 1.0` loop is not proved '
                       '(exec_allows_no_decreases_clause): its measure is floor of a real')
    ctx.add_assumption('the closed-form output count ceil((R+1)/r) (+1) is NOT claimed; the exhaustion condition itself '
                       '(source exhausted and position >= 1) is proved')
    ctx.notes.append('Converter::next verified with loop invariant (j frames pulled and fed, v == v0 - j); lemmas '
                     'lemma_position_step (pulled + v == P_n hence pulled == floor(P_n), fraction == P_n - floor(P_n)), '
                     'lemma_ratio_one, lemma_lin_value, lemma_lin_between over the contracts; MulHz sets the ratio from exactly one '
                     'control frame; Floor and Linear verified against the Interpolator contract')
    sm = {}
    for l in ('Converter::scale_playback_hz', 'Converter::from_hz_to_hz', 'Converter::scale_sample_hz', 'Converter::set_playback_hz_scale',
              'Converter::set_hz_to_hz', 'Converter::set_sample_hz_scale', 'Converter::is_exhausted'):
        sm[l] = ['Converter::next']
    for l in ('Floor::interpolate', 'Floor::next_source_frame', 'Floor::reset'):
        sm[l] = ['Converter::next']
    for l in ('Linear::next_source_frame', 'Linear::reset'):
        sm[l] = ['Linear::interpolate']
    sm['MulHz::is_exhausted'] = ['MulHz::next']
    run_unit(ctx, 'converter', search_crate='signal', search_map=sm)
    # integer sample formats (the Verus unit is about f64 frames): Linear at x == 0 reproduces the left frame EXACTLY for every
    # u8 / i16 / i32 / u32 value, the blend at x = k/4 lies between the two frames (full domain, loop-free: complete for
    # those x), feed / reset / Floor state functions on 2-channel i32 frames.  Closeness to the straight line within one LSB at
    # x != 0 does not finish in CBMC and is left to the paired native search (witnesses only).  i64 / u64 are not covered.
    ctx.add_trusted('Kani 0.68 / CBMC 6.11 bit-precise integer / f64 semantics for the c08_linear_* harnesses (kani/sinc crate)')
    ctx.add_assumption('NOT covered: Linear on i64 / u64 frames (more than 53 significant bits do not survive the blend through f64: read as '
                       '"up to float rounding"); one-LSB closeness of integer blends at x != 0 is searched natively, not proved')
    run_kani(ctx, 'sinc', harness=['c08_'], rustflags='--cfg rustaudio_dasp_verif', harness_timeout='10m')


def prepare_replay(rec):
    build_search('signal')
