"""C08 — rate converter position and consumption (DESIGN.md §6 C08)."""
from vlib.vunit import run_unit, build_search
from props.C04 import common


def run(ctx):
    common(ctx)
    ctx.add_trusted('T4 float_as_real: f64 +, -, *, /, comparisons are exact real arithmetic (axiom group float_as_real; '
                    'must-fail probe mustfail_float_axioms_consistent runs every time). The interpolation position is therefore the '
                    'EXACT sum of the ratios; accumulated rounding of a non-dyadic ratio is outside the claim')
    ctx.add_assumption('T8: termination of the `while interpolation_value >= 1.0` loop is not proved '
                       '(exec_allows_no_decreases_clause): its measure is floor of a real')
    ctx.add_assumption('the closed-form output count ceil((R+1)/r) (+1) is NOT claimed; the exhaustion condition itself '
                       '(source exhausted and position >= 1) is proved')
    ctx.notes.append('Converter::next verified with loop invariant (j frames pulled and fed, v == v0 - j); lemmas '
                     'lemma_position_step (pulled + v == P_n hence pulled == floor(P_n), fraction == P_n - floor(P_n)), '
                     'lemma_ratio_one, lemma_lin_value, lemma_lin_between over the contracts; MulHz sets the ratio from exactly one '
                     'control frame; Floor and Linear verified against the Interpolator contract')
    sm = {}
    for l in ('Converter::scale_playback_hz', 'Converter::from_hz_to_hz', 'Converter::scale_sample_hz', 'Converter::set_playback_hz_scale',
              'Converter::set_hz_to_hz', 'Converter::set_sample_hz_scale', 'Converter::is_exhausted'):
        sm[l] = ['Converter::next']
    for l in ('Floor::interpolate', 'Floor::next_source_frame', 'Floor::reset'):
        sm[l] = ['Converter::next']
    for l in ('Linear::next_source_frame', 'Linear::reset'):
        sm[l] = ['Linear::interpolate']
    sm['MulHz::is_exhausted'] = ['MulHz::next']
    run_unit(ctx, 'converter', search_crate='signal', search_map=sm)


def prepare_replay(rec):
    build_search('signal')
