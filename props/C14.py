"""C14 — buffered signals are a transparent prefetch (DESIGN.md §6 C14)."""
from vlib.vunit import run_unit, build_search
from props.C04 import common


def run(ctx):
    common(ctx)
    ctx.add_trusted('callee contract of ring_buffer::Bounded (push/pop/len/max_len: ideal bounded queue over the abstract view), '
                    'verified on the real bodies by unit ring_buffer (C06)')
    ctx.notes.append('Buffered::next / next_frames: loop invariants carry a ghost chain of source states; termination of the outer '
                     'loop proved (capacity >= 1); precondition is only the ring buffer representation invariant, i.e. any '
                     'capacity, pre-fill and start offset')
    run_unit(ctx, 'buffered', search_crate='signal')
    # the unit above ASSUMES the contracts of the Bounded queue operations it calls; they are discharged on the real bodies by
    # unit ring_buffer, which is therefore run here as well (restricted to those operations), so that a change inside the ring
    # buffer that breaks this property is reported by this check too
    run_unit(ctx, 'ring_buffer', only_labels=['Bounded::push', 'Bounded::pop', 'Bounded::len', 'Bounded::max_len',
                                             'Bounded::is_empty', 'Bounded::is_full', 'Bounded::from_raw_parts', 'Bounded::from', 'Bounded::from_full'])


def prepare_replay(rec):
    build_search('signal')
    build_search('ring_buffer')
