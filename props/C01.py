"""C01 — integer formats convert by exact power-of-two rescaling (DESIGN.md §6 C01)."""
from vlib.kani import run_kani


def run(ctx):
    ctx.level = 'proof'
    ctx.add_trusted('Kani 0.68 / CBMC 6.11 / cadical; Rust semantics of `as` casts and shifts as modelled by Kani (T1)')
    ctx.add_trusted('specification functions rescale/amp in /verif/kani/common/spec.rs (written from the property text, '
                    'cross-checked against literal expectations of dasp_sample/tests/conv.rs by harness c01_spec_literals)')
    ctx.add_assumption('custom-width inputs satisfy their type invariant MIN <= inner <= MAX (precondition of each contract); '
                       'conversions are documented as unchecked for out-of-range I24/U24/I48/U48')
    ctx.notes.append('132 contracts (one per ordered pair of distinct integer formats), each proved by a loop-free '
                     'proof_for_contract harness over the full symbolic source domain; 132 public-dispatch harnesses; '
                     '5 lemmas about the spec function for every width triple')
    ctx.extra['exhaustive'] = True
    run_kani(ctx, 'conv', harness=['c01_'], harness_timeout='5m')
