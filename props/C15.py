"""C15 — custom-width integer types never leave their range (DESIGN.md §6 C15)."""
from vlib.vunit import run_unit
from vlib.kani import run_kani

SMALL = ['I11', 'U11', 'I24', 'U24']


def whitelist_mul(hid, c):
    # release build: `self.0 * other.0` wraps (allowed by the property); Kani always flags it
    return 'c15_rel_mul_' in hid and 'attempt to multiply with overflow' in c.get('description', '') \
        and str((c.get('location') or {}).get('file', '')).endswith('types.rs')


def run(ctx):
    ctx.level = 'proof'
    ctx.add_trusted('Kani 0.68 / CBMC 6.11 (T1); Verus 0.2026.09.13 + Z3 for the wrap loops')
    ctx.add_assumption('operands of +, -, *, unary - are in range (type invariant; the property speaks of in-range values)')
    ctx.add_assumption('release semantics are obtained with RUSTFLAGS="-C debug-assertions=off" (harness c15_build_mode_release '
                       'asserts the branch); in that build the Kani check `attempt to multiply with overflow` at '
                       '`self.0 * other.0` in types.rs is whitelisted: the wrapped product is what a release build computes')
    ctx.add_assumption('release Mul of I20/U20/I48/U48 (up to 2^15 wrap iterations) is decided by composition: Verus proves '
                       'From<Rep> wraps into range and is congruent mod 2^bits for EVERY Rep value, and TOTAL divides 2^repbits; '
                       'Kani unrolls it only for the 11- and 24-bit types')
    ctx.notes.append('Verus unit types_wrap: new_sample_type! arm instantiated for the 8 invocations; wrap_overflow loops proved '
                     'with invariant `this.0 === v (mod TOTAL)` and a decreases clause')
    # [V] wrap loops, From<Rep>, new, inner — unbounded
    run_unit(ctx, 'types_wrap')
    # [K] debug-assertions build
    dbg = ['c15_new_', 'c15_ord_', 'c15_from_', 'c15_dbg_', 'c15_build_mode_debug']
    run_kani(ctx, 'types', harness=dbg, tag='debug', harness_timeout='10m')
    # [K] debug-assertions build WITHOUT the std feature of dasp_sample (no_std): overflow must still panic there
    ctx.notes.append('the debug-build overflow harnesses (+, -, *, neg: exact in range, always panic otherwise) are also run against '
                     'dasp_sample built with default-features = false (no_std)')
    run_kani(ctx, 'types', harness=['c15_dbg_', 'c15_build_mode_debug'], tag='debug_nostd', no_default_features=True, harness_timeout='10m')
    # [K] release build
    run_kani(ctx, 'types', harness=['c15_rel_', 'c15_build_mode_release'], tag='release',
             rustflags='-C debug-assertions=off', allow_failed=whitelist_mul, harness_timeout='10m')
