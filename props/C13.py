"""C13 — bus: gap-free streams, backlog retains only what laggards need (DESIGN.md §11.9)."""
from vlib.vunit import run_unit, build_search
from props.C04 import common


def run(ctx):
    common(ctx)
    ctx.add_trusted('T3: local stand-ins with ASSUMED contracts for std::collections::BTreeMap<usize,usize> (insert, remove) and '
                    'VecDeque<F> (len, push_back, pop_front) — the std collections themselves are not verified')
    ctx.add_assumption('R-subst (listed in the evidence per function): six std-iterator / indexing expressions of SharedNode are read through '
                       'helper methods of the stand-ins with a hand-stated contract: `buffer[i]`, `frames_read[&key]`, '
                       '`values().any(|&v| v <= x)`, `values().fold(init, min)`, and the two `for v in values_mut() { *v -= d }` loops. '
                       'A change INSIDE one of these expressions loses its anchor (exit 2, undecided); a change anywhere else in '
                       'next_frame / pending_frames / drop_output is checked against the contract')
    ctx.add_assumption('Bus::send is verified with the borrow line removed and the returned Output reduced to its key (R-refcell / '
                       'R-subst); the Output methods (next, pending_frames, is_exhausted, Drop::drop) are verified to forward to the SharedNode method with their own key, the RefCell borrow read as a parameter; NOT verified: the Rc<RefCell<..>> handle itself and the drop glue, key wrap-around after 2^64 sends '
                       '(fresh key is a precondition); backlog length < usize::MAX is a precondition of next_frame (T5)')
    ctx.notes.append('SharedNode::{next_frame, pending_frames, drop_output}, Bus::send and Output::{next, pending_frames, is_exhausted, drop} verified against an abstract view (read counts, backlog) '
                     'with representation invariant `every count <= backlog length and, if the backlog is non-empty, some live output has '
                     'read none of it`; lemma_bus_next: each output receives the frame at its own position of the common history, the '
                     'source is pulled exactly at the head; lemma_bus_pending: pending == frames pulled but not yet received')
    sm = {'SharedNode::pending_frames': ['SharedNode::next_frame'], 'SharedNode::drop_output': ['SharedNode::next_frame'],
          'Bus::send': ['SharedNode::next_frame'], 'Output::next': ['SharedNode::next_frame'],
          'Output::pending_frames': ['SharedNode::next_frame'], 'Output::is_exhausted': ['SharedNode::next_frame'],
          'Output::drop': ['SharedNode::next_frame']}
    run_unit(ctx, 'bus', search_crate='signal', search_map=sm)


def prepare_replay(rec):
    build_search('signal')
