"""C05 — finite signals end exactly once (DESIGN.md §6 C05)."""
from vlib.vunit import run_unit, build_search
from props.C04 import ADAPTORS, common, frame_contracts

LABELS = set(['%s::is_exhausted' % a for a in ADAPTORS] + [
    'FromIterator::next', 'FromIterator::is_exhausted',
    'FromInterleavedSamplesIterator::next', 'FromInterleavedSamplesIterator::is_exhausted',
    'UntilExhausted::next', 'Take::next', 'Take::size_hint', 'Take::len',
    'IntoInterleavedSamples::next_sample', 'IntoInterleavedSamples::into_iter', 'IntoInterleavedSamplesIterator::next', 'IntoInterleavedSamples::clone', 'Delay::next',
    'Signal::take', 'Signal::until_exhausted', 'Signal::into_interleaved_samples', 'Signal::delay',
    'from_iter', 'from_interleaved_samples_iter',
])


def run(ctx):
    common(ctx)
    ctx.add_assumption('`lift` (a 4-line composition of from_iter, a user closure and until_exhausted) is covered through the '
                       'contracts of its parts; its FnOnce call is not extracted')
    ctx.notes.append('lemmas lemma_from_iter_yields_items / lemma_from_iter_exhausted_forever / '
                     'lemma_from_iter_deterministic proved by induction over the iterator state machine')
    run_unit(ctx, 'signal', only_labels=LABELS, search_map={'IntoInterleavedSamples::into_iter': ['IntoInterleavedSamples::next_sample'], 'IntoInterleavedSamples::clone': ['IntoInterleavedSamples::next_sample'],
                                                          'IntoInterleavedSamplesIterator::next': ['IntoInterleavedSamples::next_sample']})
    frame_contracts(ctx)


def prepare_replay(rec):
    build_search('signal')
