"""C17 — oscillators and noise (DESIGN.md §6 C17)."""
from vlib.vunit import run_unit, build_search
from vlib.kani import run_kani
from props.C04 import common


def run(ctx):
    common(ctx)
    ctx.add_trusted('T4 float_as_real for the Verus unit osc (phase arithmetic over exact reals; R-frem: f64 `%` is the real '
                    'modulus; sin assumed to be the sine with |sin| <= 1). The wrapped phase is decided ONLY there: Kani 0.68 / CBMC 6.11 '
                    'evaluates the f64 `%` operator to 0.0 for every operand (measured), so no Kani harness is relied on for anything '
                    'downstream of a wrap')
    ctx.add_trusted('Kani 0.68 / CBMC 6.11 bit-precise u64 / f64 semantics for the noise, step, saw and square harnesses')
    ctx.add_assumption('hook Phase::verif_from_parts (cfg rustaudio_dasp_verif) is used to start from an arbitrary phase state')
    ctx.add_assumption('float-level reading of "advances by frequency/rate": the step is the correctly rounded f64 quotient (Kani '
                       'c17_step_bits_*: concrete rates 49 / 44100 — a symbolic f64 divisor does not finish in CBMC — and every finite '
                       'non-negative f32-valued frequency; full f64 frequencies in the thorough tier); other rates rest on the Verus proof over reals')
    ctx.add_assumption('NOT claimed: |simplex_noise_1d| <= 1 (degree-9 polynomial bound, neither Z3 nonlinear nor bit-blasted f64 '
                       'products settle it) and float-level behaviour for infinite steps')
    run_unit(ctx, 'osc', search_crate='signal')
    # c17_step_bits_*: step == the correctly rounded f64 quotient hz / rate (bit-precise; rate 49, every finite f32 frequency);
    # thorough adds rate 44100 and the full f64 frequency domain (c17t_*)
    hs = ['c17_'] + (['c17t_'] if ctx.tier == 'thorough' else [])
    run_kani(ctx, 'osc', harness=hs, rustflags='--cfg rustaudio_dasp_verif', harness_timeout='15m')


def prepare_replay(rec):
    build_search('signal')
