"""C17 — oscillators and noise (DESIGN.md §6 C17)."""
from vlib.vunit import run_unit, build_search
from vlib.kani import run_kani
from props.C04 import common


def run(ctx):
    common(ctx)
    ctx.add_trusted('T4 float_as_real for the Verus unit osc (phase arithmetic over exact reals; R-frem: f64 `%` is the real '
                    'modulus; sin assumed to be the sine with |sin| <= 1); the range of the wrapped phase is ALSO proved '
                    'bit-precisely by Kani (c17_phase_wrap_bits) from every phase state')
    ctx.add_trusted('Kani 0.68 / CBMC 6.11 bit-precise u64 / f64 semantics for the noise, phase-wrap, saw and square harnesses')
    ctx.add_assumption('hook Phase::verif_from_parts (cfg rustaudio_dasp_verif) is used to start from an arbitrary phase state')
    ctx.add_assumption('precondition of the phase-wrap harness: step >= 0 finite and phase + step finite (an infinite sum gives NaN: '
                       'hz/rate overflowing f64 is outside any meaningful reading of "advances by frequency/rate")')
    ctx.add_assumption('NOT claimed: |simplex_noise_1d| <= 1 (degree-9 polynomial bound, neither Z3 nonlinear nor bit-blasted f64 '
                       'products settle it) and float-level behaviour for infinite steps')
    run_unit(ctx, 'osc', search_crate='signal')
    run_kani(ctx, 'osc', harness=['c17_'], rustflags='--cfg rustaudio_dasp_verif', harness_timeout='8m')


def prepare_replay(rec):
    build_search('signal')
