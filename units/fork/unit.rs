// Unit fork (C12): Signal::fork, the four macro-instantiated branch `next` bodies and the four
// `pending_frames`, verified against the CONTRACT of ring_buffer::Bounded and of Signal.
// R-refcell: the `self.shared_fork.borrow_mut()` line is removed and `fork` is a parameter; the
// Rc / RefCell plumbing (dynamic borrow checks, reference counting) is NOT verified.
use vstd::prelude::*;
use vstd::arithmetic::div_mod::*;
use vstd::std_specs::ops::*;
use vstd::std_specs::cmp::*;
use core::mem;
verus! {

//@include _shared/std_specs.rs
//@include _shared/rb_prelude.rs
//@include _shared/rb_bounded.rs external
//@include _shared/signal_prelude.rs

pub mod ring_buffer { pub use super::{Bounded, Slice, SliceMut}; }

/// local stand-in for core::cell::RefCell (T3): only construction is used by the extracted code
pub struct RefCell<T> { pub v: T }
impl<T> RefCell<T> {
    pub fn new(v: T) -> (r: Self) ensures r.v == v { RefCell { v } }
    pub fn into_inner(self) -> (r: T) ensures r == self.v { self.v }
}

/// local stand-in for alloc::rc::Rc (T3): `clone` shares the SAME value (the model of sharing is equality of content;
/// that both handles alias one cell is not verified)
pub struct Rc<T> { pub v: T }
impl<T> Rc<T> {
    pub fn new(v: T) -> (r: Self) ensures r.v == v { Rc { v } }
    #[verifier::external_body]
    pub fn clone(&self) -> (r: Self) ensures r.v == self.v { unimplemented!() }
}

//@struct file=dasp_signal/src/lib.rs name=Fork
//@struct file=dasp_signal/src/lib.rs macro=define_branch arm=0 bind="TRc=BranchRcA;TRef=BranchRefA;SELF=A;OTHER=B" name=BranchRcA
//@struct file=dasp_signal/src/lib.rs macro=define_branch arm=0 bind="TRc=BranchRcA;TRef=BranchRefA;SELF=A;OTHER=B" name=BranchRefA
//@struct file=dasp_signal/src/lib.rs macro=define_branch arm=0 bind="TRc=BranchRcB;TRef=BranchRefB;SELF=B;OTHER=A" name=BranchRcB
//@struct file=dasp_signal/src/lib.rs macro=define_branch arm=0 bind="TRc=BranchRcB;TRef=BranchRefB;SELF=B;OTHER=A" name=BranchRefB
//@struct file=dasp_signal/src/lib.rs name=ForkShared

//@impl file=dasp_signal/src/lib.rs header="impl<S, D> Fork<S, D>"
//@item file=dasp_signal/src/lib.rs in="impl:<S, D> Fork<S, D>" kind=const name=A
//@item file=dasp_signal/src/lib.rs in="impl:<S, D> Fork<S, D>" kind=const name=B
//@fn file=dasp_signal/src/lib.rs in="impl:<S, D> Fork<S, D>" name=by_rc ret=r label=Fork::by_rc vis=pub
//@spec
        // splitting (also RE-splitting after earlier use) hands both branches the shared state unchanged:
        // source position, queued frames and the pending flag
        ensures r.0.shared_fork.v == self.shared, r.1.shared_fork.v == self.shared,
//@end
//@fn file=dasp_signal/src/lib.rs in="impl:<S, D> Fork<S, D>" name=by_ref ret=r label=Fork::by_ref vis=pub
//@spec
        ensures *r.0.shared_fork == old(self).shared, *r.1.shared_fork == old(self).shared,
//@end
//@endimpl

/// view of the shared fork state: frames waiting in the ring buffer and which branch they are waiting for
pub open spec fn fork_wf<S: Signal, D: Slice<Element = S::Frame>>(fork: &ForkShared<S, D>) -> bool {
    fork.signal.inv() && fork.ring_buffer.wf()
}

/// does branch x pull the source on its next call?  (exactly when it is not lagging)
pub open spec fn branch_pulls<F>(x: bool, q: Seq<F>, pending: bool) -> bool { !(pending == x && q.len() > 0) }

/// THE per-call contract of branch X.next() (x == true for branch A): relation between the view before
/// (q, pending), the yielded frame r and the view after (q2, pending2).
pub open spec fn branch_post<F>(x: bool, q: Seq<F>, pending: bool, cap: int, r: F, q2: Seq<F>, pending2: bool) -> bool {
    if pending == x && q.len() > 0 {
        // this branch lags: oldest waiting frame
        r == q[0] && q2 =~= q.drop_first() && pending2 == x
    } else if pending == x {
        // caught up exactly: the pulled frame now waits for the OTHER branch
        q2 =~= seq![r] && pending2 == !x
    } else if q.len() < cap {
        // this branch leads by less than the capacity: the pulled frame is queued for the other
        q2 =~= q.push(r) && pending2 == !x
    } else {
        // lead == capacity: outside the property's precondition; the oldest waiting frame is evicted
        q2 =~= q.drop_first().push(r) && pending2 == !x
    }
}

//@macrofn file=dasp_signal/src/lib.rs macro=define_branch arm=0 bind="TRc=BranchRcA;TRef=BranchRefA;SELF=A;OTHER=B" in="impl:<'a, S, D> Signal for BranchRefA<'a, S, D>" name=next label=BranchRefA::next rules=R-refcell sig="fn branch_ref_a_next<S, D>(fork: &mut ForkShared<S, D>) -> (r: S::Frame) where S: Signal, D: ring_buffer::SliceMut<Element = S::Frame>"
//@spec
        requires fork_wf(old(fork)),
        ensures fork_wf(final(fork)), final(fork).signal.cfg() == old(fork).signal.cfg(),
            final(fork).ring_buffer.cap() == old(fork).ring_buffer.cap(),
            branch_post(true, old(fork).ring_buffer.seq(), old(fork).pending, old(fork).ring_buffer.cap(),
                    r, final(fork).ring_buffer.seq(), final(fork).pending),
            // the source is pulled exactly once when this branch is not lagging, and not at all otherwise
            branch_pulls(true, old(fork).ring_buffer.seq(), old(fork).pending) ==>
                S::trans(old(fork).signal.cfg(), old(fork).signal.st(), r, final(fork).signal.st()),
            !branch_pulls(true, old(fork).ring_buffer.seq(), old(fork).pending) ==>
                final(fork).signal.st() == old(fork).signal.st(),
//@end
//@macrofn file=dasp_signal/src/lib.rs macro=define_branch arm=0 bind="TRc=BranchRcA;TRef=BranchRefA;SELF=A;OTHER=B" in="impl:<'a, S, D> BranchRefA<'a, S, D>" name=pending_frames label=BranchRefA::pending_frames rules=R-refcell sig="fn branch_ref_a_pending_frames<S, D>(fork: &ForkShared<S, D>) -> (r: usize) where D: ring_buffer::Slice, D::Element: Copy"
//@spec
        ensures r == (if fork.pending == true { fork.ring_buffer.seq().len() } else { 0 }),
//@end

//@macrofn file=dasp_signal/src/lib.rs macro=define_branch arm=0 bind="TRc=BranchRcA;TRef=BranchRefA;SELF=A;OTHER=B" in="impl:<S, D> Signal for BranchRcA<S, D>" name=next label=BranchRcA::next rules=R-refcell sig="fn branch_rc_a_next<S, D>(fork: &mut ForkShared<S, D>) -> (r: S::Frame) where S: Signal, D: ring_buffer::SliceMut<Element = S::Frame>"
//@spec
        requires fork_wf(old(fork)),
        ensures fork_wf(final(fork)), final(fork).signal.cfg() == old(fork).signal.cfg(),
            final(fork).ring_buffer.cap() == old(fork).ring_buffer.cap(),
            branch_post(true, old(fork).ring_buffer.seq(), old(fork).pending, old(fork).ring_buffer.cap(),
                    r, final(fork).ring_buffer.seq(), final(fork).pending),
            // the source is pulled exactly once when this branch is not lagging, and not at all otherwise
            branch_pulls(true, old(fork).ring_buffer.seq(), old(fork).pending) ==>
                S::trans(old(fork).signal.cfg(), old(fork).signal.st(), r, final(fork).signal.st()),
            !branch_pulls(true, old(fork).ring_buffer.seq(), old(fork).pending) ==>
                final(fork).signal.st() == old(fork).signal.st(),
//@end
//@macrofn file=dasp_signal/src/lib.rs macro=define_branch arm=0 bind="TRc=BranchRcA;TRef=BranchRefA;SELF=A;OTHER=B" in="impl:<S, D> BranchRcA<S, D>" name=pending_frames label=BranchRcA::pending_frames rules=R-refcell sig="fn branch_rc_a_pending_frames<S, D>(fork: &ForkShared<S, D>) -> (r: usize) where D: ring_buffer::Slice, D::Element: Copy"
//@spec
        ensures r == (if fork.pending == true { fork.ring_buffer.seq().len() } else { 0 }),
//@end

//@macrofn file=dasp_signal/src/lib.rs macro=define_branch arm=0 bind="TRc=BranchRcB;TRef=BranchRefB;SELF=B;OTHER=A" in="impl:<'a, S, D> Signal for BranchRefB<'a, S, D>" name=next label=BranchRefB::next rules=R-refcell sig="fn branch_ref_b_next<S, D>(fork: &mut ForkShared<S, D>) -> (r: S::Frame) where S: Signal, D: ring_buffer::SliceMut<Element = S::Frame>"
//@spec
        requires fork_wf(old(fork)),
        ensures fork_wf(final(fork)), final(fork).signal.cfg() == old(fork).signal.cfg(),
            final(fork).ring_buffer.cap() == old(fork).ring_buffer.cap(),
            branch_post(false, old(fork).ring_buffer.seq(), old(fork).pending, old(fork).ring_buffer.cap(),
                    r, final(fork).ring_buffer.seq(), final(fork).pending),
            // the source is pulled exactly once when this branch is not lagging, and not at all otherwise
            branch_pulls(false, old(fork).ring_buffer.seq(), old(fork).pending) ==>
                S::trans(old(fork).signal.cfg(), old(fork).signal.st(), r, final(fork).signal.st()),
            !branch_pulls(false, old(fork).ring_buffer.seq(), old(fork).pending) ==>
                final(fork).signal.st() == old(fork).signal.st(),
//@end
//@macrofn file=dasp_signal/src/lib.rs macro=define_branch arm=0 bind="TRc=BranchRcB;TRef=BranchRefB;SELF=B;OTHER=A" in="impl:<'a, S, D> BranchRefB<'a, S, D>" name=pending_frames label=BranchRefB::pending_frames rules=R-refcell sig="fn branch_ref_b_pending_frames<S, D>(fork: &ForkShared<S, D>) -> (r: usize) where D: ring_buffer::Slice, D::Element: Copy"
//@spec
        ensures r == (if fork.pending == false { fork.ring_buffer.seq().len() } else { 0 }),
//@end

//@macrofn file=dasp_signal/src/lib.rs macro=define_branch arm=0 bind="TRc=BranchRcB;TRef=BranchRefB;SELF=B;OTHER=A" in="impl:<S, D> Signal for BranchRcB<S, D>" name=next label=BranchRcB::next rules=R-refcell sig="fn branch_rc_b_next<S, D>(fork: &mut ForkShared<S, D>) -> (r: S::Frame) where S: Signal, D: ring_buffer::SliceMut<Element = S::Frame>"
//@spec
        requires fork_wf(old(fork)),
        ensures fork_wf(final(fork)), final(fork).signal.cfg() == old(fork).signal.cfg(),
            final(fork).ring_buffer.cap() == old(fork).ring_buffer.cap(),
            branch_post(false, old(fork).ring_buffer.seq(), old(fork).pending, old(fork).ring_buffer.cap(),
                    r, final(fork).ring_buffer.seq(), final(fork).pending),
            // the source is pulled exactly once when this branch is not lagging, and not at all otherwise
            branch_pulls(false, old(fork).ring_buffer.seq(), old(fork).pending) ==>
                S::trans(old(fork).signal.cfg(), old(fork).signal.st(), r, final(fork).signal.st()),
            !branch_pulls(false, old(fork).ring_buffer.seq(), old(fork).pending) ==>
                final(fork).signal.st() == old(fork).signal.st(),
//@end
//@macrofn file=dasp_signal/src/lib.rs macro=define_branch arm=0 bind="TRc=BranchRcB;TRef=BranchRefB;SELF=B;OTHER=A" in="impl:<S, D> BranchRcB<S, D>" name=pending_frames label=BranchRcB::pending_frames rules=R-refcell sig="fn branch_rc_b_pending_frames<S, D>(fork: &ForkShared<S, D>) -> (r: usize) where D: ring_buffer::Slice, D::Element: Copy"
//@spec
        ensures r == (if fork.pending == false { fork.ring_buffer.seq().len() } else { 0 }),
//@end



// constructor (default method of trait Signal): asserts the buffer is empty => the invariant below holds initially
pub trait SignalFork: Signal + Sized {
//@fn file=dasp_signal/src/lib.rs in="trait:Signal" name=fork ret=r label=Signal::fork rules=R-assert
//@spec
        ensures r.shared.v.signal == self, r.shared.v.ring_buffer == ring_buffer,
            r.shared.v.ring_buffer.seq().len() == 0,      // panics otherwise (assert!); with an empty queue either value of `pending` satisfies the invariant
//@end
}
impl<T: Signal + Sized> SignalFork for T {}

// ---------------------------------------------------------------------------------------------
// The property as a lemma over the per-call contract (C12)
// ---------------------------------------------------------------------------------------------

/// h: every frame pulled from the source so far, in order; pa / pb: how many of them branch A / B has
/// yielded.  The queue holds exactly the frames the lagging branch has not seen yet.
pub open spec fn fork_inv<F>(h: Seq<F>, pa: int, pb: int, q: Seq<F>, pending: bool) -> bool {
    0 <= pa <= h.len() && 0 <= pb <= h.len()
    && (pa == h.len() || pb == h.len())                        // the source is exactly at the leader's position
    && (pending ==> pb == h.len() && q =~= h.subrange(pa, pb))    // pending == A: A lags, q == h[pa..pb)
    && (!pending ==> pa == h.len() && q =~= h.subrange(pb, pa))   // pending == B: B lags (or equal), q == h[pb..pa)
}

/// One call of A.next() (x == true) or B.next() (x == false) from a state satisfying the invariant, with the
/// lead not exceeding the capacity afterwards: the branch yields ITS next frame of the common history, the
/// source was pulled iff this branch was at the head (once per distinct frame), and the invariant is kept.
pub proof fn lemma_fork_step<F>(x: bool, h: Seq<F>, pa: int, pb: int, q: Seq<F>, pending: bool, cap: int,
                                r: F, q2: Seq<F>, pending2: bool)
    requires
        fork_inv(h, pa, pb, q, pending),
        branch_post(x, q, pending, cap, r, q2, pending2),
        // the lead of this branch over the other does not exceed the capacity after the call
        x ==> pa + 1 - pb <= cap,
        !x ==> pb + 1 - pa <= cap,
    ensures
        ({
            let pulls = branch_pulls(x, q, pending);
            let h2 = if pulls { h.push(r) } else { h };
            let pa2 = if x { pa + 1 } else { pa };
            let pb2 = if x { pb } else { pb + 1 };
            // pulled exactly when this branch is at the head of the history
            &&& pulls == (if x { pa == h.len() } else { pb == h.len() })
            // the frame yielded is this branch's next frame of the common history: nothing lost, duplicated or reordered
            &&& r == h2[if x { pa } else { pb }]
            &&& fork_inv(h2, pa2, pb2, q2, pending2)
        }),
{
    let pulls = branch_pulls(x, q, pending);
    let h2 = if pulls { h.push(r) } else { h };
    if pending == x && q.len() > 0 {
    } else {
        assert(h2 == h.push(r));
        if pending == x {
            assert(q.len() == 0);
        }
    }
}

/// pending count == lag: what X.pending_frames() returns (contract above) is the number of frames X is behind
pub proof fn lemma_pending_is_lag<F>(h: Seq<F>, pa: int, pb: int, q: Seq<F>, pending: bool)
    requires fork_inv(h, pa, pb, q, pending)
    ensures
        (if pending { q.len() as int } else { 0 }) == h.len() - pa,
        (if !pending { q.len() as int } else { 0 }) == h.len() - pb,
{}

/// the state built by Signal::fork (empty queue, pending == B) satisfies the invariant with an empty history;
/// so does any later state (re-splitting with by_ref starts from a state satisfying it).
pub proof fn lemma_fork_init<F>(pending: bool)
    ensures fork_inv(Seq::<F>::empty(), 0, 0, Seq::<F>::empty(), pending)
{}
} // verus!
fn main() {}
