// Unit window (C20): Windower::size_hint and the chunk-count closed form (integers, exact), and the Hann /
// Rectangle window shapes over float_as_real with the assumed cosine facts (T4).
use vstd::prelude::*;
use vstd::arithmetic::div_mod::*;
use vstd::std_specs::ops::*;
use vstd::std_specs::cmp::*;
verus! {

//@include _shared/float_as_real.rs
//@include _shared/signal_prelude.rs

proof fn mustfail_window_axioms_consistent() { broadcast use float_as_real; broadcast use cos_facts; assert(false); }

// ---------------------------------------------------------------------------------------------
// chunk schedule
// ---------------------------------------------------------------------------------------------
use core::marker::PhantomData;
pub trait Window<S> {
    type Output;
    fn window(phase: S) -> Self::Output;
}
use Window as WindowType;

//@struct file=dasp_signal/src/window/mod.rs name=Windower

/// number of chunks the windower yields over L frames with bin size b and hop h >= 1 (closed form of the property)
pub open spec fn count(l: int, b: int, h: int) -> int { if l >= b { (l - b) / h + 1 } else { 0 } }

/// what Windower::next implements (verified bit-precisely by the Kani harness c20_windower_next_arith):
/// a chunk iff b <= L, then continue on L - h frames (none when h >= L)
pub open spec fn count_rec(l: int, b: int, h: int) -> int
    decreases l
{
    if l <= 0 || h <= 0 || b > l { 0 } else { 1 + count_rec(if h < l { l - h } else { 0 }, b, h) }
}

/// the iterator yields exactly floor((L - b) / h) + 1 chunks when L >= b and none otherwise — for EVERY L, b >= 1, h >= 1
pub proof fn lemma_count_closed_form(l: int, b: int, h: int)
    requires l >= 0, b >= 1, h >= 1
    ensures count_rec(l, b, h) == count(l, b, h)
    decreases l
{
    if l <= 0 || b > l {
    } else if h < l {
        lemma_count_closed_form(l - h, b, h);
        assert(count_rec(l, b, h) == 1 + count_rec(l - h, b, h));
        if l - h >= b {
            // (l - b) / h == (l - h - b) / h + 1
            lemma_div_plus_one(l - h - b, h);
            assert(h + (l - h - b) == l - b);
        } else {
            // 0 <= l - b < h  =>  (l - b) / h == 0
            lemma_basic_div(l - b, h);
        }
    } else {
        assert(count_rec(0, b, h) == 0);
        assert(count_rec(l, b, h) == 1 + count_rec(0, b, h));
        lemma_basic_div(l - b, h);
    }
}

//@impl file=dasp_signal/src/window/mod.rs header="impl<'a, F, W> Iterator for Windower<'a, F, W>" as="impl<'a, F, W> Windower<'a, F, W>"
//@fn file=dasp_signal/src/window/mod.rs in="impl:<'a, F, W> Iterator for Windower<'a, F, W>" name=size_hint ret=r label=Windower::size_hint rules=R-subst:core::usize::MAX=>usize::MAX
//@spec
        requires self.bin >= 2, self.hop >= 1,
        ensures
            // consistent with the number of chunks actually yielded: lower <= count <= upper
            r.0 <= count(self.frames@.len() as int, self.bin as int, self.hop as int),
            r.1 is Some ==> count(self.frames@.len() as int, self.bin as int, self.hop as int) <= r.1.unwrap(),
//@end
//@endimpl

// ---------------------------------------------------------------------------------------------
// window shapes (idealised reals)
// ---------------------------------------------------------------------------------------------
pub uninterp spec fn cos_r(x: real) -> real;
pub uninterp spec fn pi_r() -> real;
/// T4: assumed facts about the cosine (libm is not verified)
pub broadcast axiom fn ax_cos_range(x: real) ensures -1real <= #[trigger] cos_r(x) <= 1real;
#[verifier::allow(broadcast_without_trigger)]
pub broadcast axiom fn ax_cos_values() ensures cos_r(0real) == 1real, cos_r(pi_r()) == -1real, cos_r(2real * pi_r()) == 1real, pi_r() > 3real;
pub broadcast axiom fn ax_cos_sym(x: real) ensures #[trigger] cos_r(2real * pi_r() - x) == cos_r(x);
#[verifier::allow(broadcast_without_trigger)]
pub broadcast axiom fn ax_pi_const() ensures rv(pi_f64()) == pi_r();
pub uninterp spec fn pi_f64() -> f64;
/// core::f64::consts::PI (R-subst: the constant is read through this function)
#[verifier::external_body]
#[allow(non_snake_case)]
fn PI_() -> (r: f64) ensures r == pi_f64() { core::f64::consts::PI }
pub broadcast group cos_facts { ax_cos_range, ax_cos_values, ax_cos_sym, ax_pi_const }

/// dasp_window::hann::ops::f64::cos (std or intrinsic): assumed to compute the cosine
#[verifier::external_body]
fn cos(x: f64) -> (r: f64) ensures rv(r) == cos_r(rv(x)) { x.cos() }

pub trait SampleOps: Sample {
    fn to_float_sample(self) -> (r: Self::Float) ensures r == conv_spec::<Self, Self::Float>(self);
    #[allow(non_snake_case)]
    fn IDENTITY_() -> (r: Self::Float) ensures r == identity_spec::<Self>();
}
pub uninterp spec fn identity_spec<S: Sample>() -> S::Float;
impl<T: Sample> SampleOps for T {
    #[verifier::external_body]
    fn to_float_sample(self) -> (r: Self::Float) { unimplemented!() }
    #[verifier::external_body]
    fn IDENTITY_() -> (r: Self::Float) { unimplemented!() }
}

/// 0.5 * (1 - cos(2 pi p)) as the code computes it in f64
pub open spec fn hann_f64(p: f64) -> f64 {
    0.5f64.mul_spec(1.0f64.sub_spec(cos_f64(p.mul_spec(pi_f64().mul_spec(2.0f64)))))
}
pub uninterp spec fn cos_f64(x: f64) -> f64;
pub broadcast axiom fn ax_cos_f64(x: f64) ensures rv(#[trigger] cos_f64(x)) == cos_r(rv(x));

pub struct Hann;
//@impl file=dasp_window/src/hann/mod.rs header="impl<S> Window<S> for Hann"
//@item file=dasp_window/src/hann/mod.rs in="impl:<S> Window<S> for Hann" kind=type name=Output
//@fn file=dasp_window/src/hann/mod.rs in="impl:<S> Window<S> for Hann" name=window ret=r label=Hann::window "rules=R-subst:const PI_2: f64 = core::f64::consts::PI=>let PI_2: f64 = PI_()"
//@spec
        ensures exists|y: f64| rv(y) == rv(hann_f64(conv_spec::<S::Float, f64>(conv_spec::<S, S::Float>(phase))))
            && r == conv_spec::<S::Float, S>(conv_spec::<f64, S::Float>(y)),
//@entry
        broadcast use float_as_real;
        broadcast use ax_cos_f64;
//@end
//@endimpl

pub struct Rectangle;
//@impl file=dasp_window/src/rectangle.rs header="impl<S> Window<S> for Rectangle"
//@item file=dasp_window/src/rectangle.rs in="impl:<S> Window<S> for Rectangle" kind=type name=Output
//@fn file=dasp_window/src/rectangle.rs in="impl:<S> Window<S> for Rectangle" name=window ret=r label=Rectangle::window
//@spec
        // 1 everywhere: the format's identity (1.0) converted to the format, independent of the phase
        ensures r == conv_spec::<S::Float, S>(identity_spec::<S>()),
//@end
//@endimpl

/// The Hann shape in real arithmetic: 0.5 (1 - cos(2 pi p)), within [0, 1], 0 at both ends, 1 at p = 0.5, symmetric
pub proof fn lemma_hann_shape(p: f64)
    ensures
        rv(hann_f64(p)) == (1real - cos_r(rv(p) * (pi_r() * 2real))) / 2real,
        0real <= rv(hann_f64(p)) <= 1real,
        rv(p) == 0real ==> rv(hann_f64(p)) == 0real,
        rv(p) == 1real ==> rv(hann_f64(p)) == 0real,
        rv(p) * 2real == 1real ==> rv(hann_f64(p)) == 1real,
{
    broadcast use float_as_real;
    broadcast use cos_facts;
    broadcast use ax_cos_f64;
    let t = rv(p) * (pi_r() * 2real);
    assert(rv(p) == 0real ==> t == 0real) by (nonlinear_arith) requires t == rv(p) * (pi_r() * 2real);
    assert(rv(p) == 1real ==> t == 2real * pi_r()) by (nonlinear_arith) requires t == rv(p) * (pi_r() * 2real);
    assert(rv(p) * 2real == 1real ==> t == pi_r()) by (nonlinear_arith) requires t == rv(p) * (pi_r() * 2real);
}

pub proof fn lemma_hann_symmetric(p: f64, q: f64)
    requires rv(q) == 1real - rv(p)
    ensures rv(hann_f64(q)) == rv(hann_f64(p))
{
    broadcast use float_as_real;
    broadcast use cos_facts;
    broadcast use ax_cos_f64;
    lemma_hann_shape(p); lemma_hann_shape(q);
    let t = rv(p) * (pi_r() * 2real);
    assert(rv(q) * (pi_r() * 2real) == 2real * pi_r() - t) by (nonlinear_arith)
        requires rv(q) == 1real - rv(p), t == rv(p) * (pi_r() * 2real);
}

} // verus!
fn main() {}
