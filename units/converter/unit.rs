// Unit converter (C08): dasp_signal::interpolate::Converter, MulHz, and the Floor / Linear interpolators,
// over float_as_real (T4): the interpolation position is the EXACT real sum of the ratios; accumulated
// rounding of a non-dyadic ratio is outside the claim.
use vstd::prelude::*;
use vstd::std_specs::ops::*;
use vstd::std_specs::cmp::*;
verus! {

//@include _shared/helpers.rs
//@include _shared/float_as_real.rs
//@include _shared/signal_prelude.rs

proof fn mustfail_float_axioms_consistent() { broadcast use float_as_real; assert(false); }

/// a chain of |fs| transitions of the source (same definition as in unit buffered)
pub open spec fn chain<S: Signal>(c: S::Cfg, ss: Seq<S::State>, fs: Seq<S::Frame>) -> bool {
    ss.len() == fs.len() + 1
    && forall|i: int| 0 <= i < fs.len() ==> S::trans(c, ss[i], #[trigger] fs[i], ss[i + 1])
}
pub proof fn lemma_chain_push<S: Signal>(c: S::Cfg, ss: Seq<S::State>, fs: Seq<S::Frame>, f: S::Frame, s2: S::State)
    requires chain::<S>(c, ss, fs), S::trans(c, ss.last(), f, s2)
    ensures chain::<S>(c, ss.push(s2), fs.push(f))
{
    let ss2 = ss.push(s2); let fs2 = fs.push(f);
    assert forall|i: int| 0 <= i < fs2.len() implies S::trans(c, ss2[i], #[trigger] fs2[i], ss2[i + 1]) by {
        if i < fs.len() { assert(fs2[i] == fs[i]); assert(S::trans(c, ss[i], fs[i], ss[i + 1])); }
    }
}

// Contract of the trait dasp_interpolate::Interpolator (the repository's trait carries no specification)
pub trait Interpolator {
    type Frame: Frame;
    /// abstract interpolator state (the buffered source frames)
    type IS;
    spec fn is(&self) -> Self::IS;
    /// `out` is the output at fractional position x (rv(x) in [0, 1) in normal operation)
    spec fn interp(s: Self::IS, x: f64, out: Self::Frame) -> bool;
    /// state after being fed one source frame
    spec fn feed(s: Self::IS, f: Self::Frame) -> Self::IS;
    spec fn reset_state() -> Self::IS;
    fn interpolate(&self, x: f64) -> (r: Self::Frame)
        ensures Self::interp(self.is(), x, r);
    fn next_source_frame(&mut self, source_frame: Self::Frame)
        ensures (*final(self)).is() == Self::feed((*old(self)).is(), source_frame);
    fn reset(&mut self)
        ensures (*final(self)).is() == Self::reset_state();
}

/// interpolator state after being fed the frames fs in order
pub open spec fn feed_all<I: Interpolator>(s: I::IS, fs: Seq<I::Frame>) -> I::IS
    decreases fs.len()
{
    if fs.len() == 0 { s } else { I::feed(feed_all::<I>(s, fs.drop_last()), fs.last()) }
}

//@struct file=dasp_signal/src/interpolate.rs name=Converter

//@impl file=dasp_signal/src/interpolate.rs header="impl<S, I> Converter<S, I>"
//@fn file=dasp_signal/src/interpolate.rs in="impl:<S, I> Converter<S, I>" name=scale_playback_hz ret=r label=Converter::scale_playback_hz rules=R-assert vis=pub
//@spec
        ensures r.source == source, r.interpolator == interpolator,
            rv(r.interpolation_value) == 0real,              // position starts at 0
            r.source_to_target_ratio == scale, rv(scale) > 0real,   // panics unless the ratio is positive
//@entry
        broadcast use float_as_real;
//@end
//@fn file=dasp_signal/src/interpolate.rs in="impl:<S, I> Converter<S, I>" name=from_hz_to_hz ret=r label=Converter::from_hz_to_hz vis=pub
//@spec
        requires rv(target_hz) != 0real,
        ensures r.source == source, r.interpolator == interpolator, rv(r.interpolation_value) == 0real,
            rv(r.source_to_target_ratio) * rv(target_hz) == rv(source_hz), rv(r.source_to_target_ratio) > 0real,
//@entry
        broadcast use float_as_real;
//@end
//@fn file=dasp_signal/src/interpolate.rs in="impl:<S, I> Converter<S, I>" name=scale_sample_hz ret=r label=Converter::scale_sample_hz vis=pub
//@spec
        requires rv(scale) != 0real,
        ensures r.source == source, r.interpolator == interpolator, rv(r.interpolation_value) == 0real,
            rv(r.source_to_target_ratio) * rv(scale) == 1real, rv(r.source_to_target_ratio) > 0real,
//@entry
        broadcast use float_as_real;
//@end
//@fn file=dasp_signal/src/interpolate.rs in="impl:<S, I> Converter<S, I>" name=set_playback_hz_scale label=Converter::set_playback_hz_scale vis=pub
//@spec
        ensures final(self).source_to_target_ratio == scale,
            // affects only subsequent frames: position, source and interpolator untouched
            final(self).source == old(self).source, final(self).interpolator == old(self).interpolator,
            final(self).interpolation_value == old(self).interpolation_value,
//@end
//@fn file=dasp_signal/src/interpolate.rs in="impl:<S, I> Converter<S, I>" name=set_hz_to_hz label=Converter::set_hz_to_hz vis=pub
//@spec
        requires rv(target_hz) != 0real,
        ensures rv(final(self).source_to_target_ratio) * rv(target_hz) == rv(source_hz),
            final(self).source == old(self).source, final(self).interpolator == old(self).interpolator,
            final(self).interpolation_value == old(self).interpolation_value,
//@entry
        broadcast use float_as_real;
//@end
//@fn file=dasp_signal/src/interpolate.rs in="impl:<S, I> Converter<S, I>" name=set_sample_hz_scale label=Converter::set_sample_hz_scale vis=pub
//@spec
        requires rv(scale) != 0real,
        ensures rv(final(self).source_to_target_ratio) * rv(scale) == 1real,
            final(self).source == old(self).source, final(self).interpolator == old(self).interpolator,
            final(self).interpolation_value == old(self).interpolation_value,
//@entry
        broadcast use float_as_real;
//@end
//@endimpl

//@impl file=dasp_signal/src/interpolate.rs header="impl<S, I> Signal for Converter<S, I>"
//@item file=dasp_signal/src/interpolate.rs in="impl:<S, I> Signal for Converter<S, I>" kind=type name=Frame
    /// (source state, interpolator state, position v within the current source interval, ratio in effect)
    type State = (S::State, I::IS, f64, f64);
    type Cfg = S::Cfg;
    open spec fn st(&self) -> Self::State {
        (self.source.st(), self.interpolator.is(), self.interpolation_value, self.source_to_target_ratio)
    }
    open spec fn cfg(&self) -> Self::Cfg { self.source.cfg() }
    open spec fn inv(&self) -> bool { self.source.inv() }
    /// with k = floor(v): exactly k source frames are pulled and fed to the interpolator in order (none
    /// skipped or re-read), the output is the interpolator evaluated at v - k, and the position advances
    /// by the ratio in effect.
    open spec fn trans(c: Self::Cfg, s: Self::State, f: Self::Frame, s2: Self::State) -> bool {
        if rv(s.2) >= 0real {
            exists|ss: Seq<S::State>, fs: Seq<S::Frame>, x: f64| #[trigger] chain::<S>(c, ss, fs)
                && ss[0] == s.0 && ss.last() == s2.0
                && (fs.len() as real) <= rv(s.2) < (fs.len() as real) + 1real        // |fs| == floor(v)
                && s2.1 == feed_all::<I>(s.1, fs)
                && rv(x) == rv(s.2) - (fs.len() as real)                             // fractional position
                && #[trigger] I::interp(s2.1, x, f)
                && rv(s2.2) == rv(x) + rv(s.3)
                && s2.3 == s.3
        } else {
            // a negative position can only arise from a non-positive ratio (outside the property): nothing is pulled
            s2.0 == s.0 && s2.1 == s.1 && I::interp(s.1, s.2, f) && rv(s2.2) == rv(s.2) + rv(s.3) && s2.3 == s.3
        }
    }
    /// exhausted exactly when the source is and producing the next output would need a further source frame
    open spec fn exh(s: Self::State) -> bool { S::exh(s.0) && rv(s.2) >= 1real }
//@fn file=dasp_signal/src/interpolate.rs in="impl:<S, I> Signal for Converter<S, I>" name=next label=Converter::next rules=R-fcompound attr="#[verifier::exec_allows_no_decreases_clause]"
//@entry
        broadcast use float_as_real;
        let ghost s0 = self.source.st();
        let ghost c0 = self.source.cfg();
        let ghost is0 = self.interpolator.is();
        let ghost v0 = rv(self.interpolation_value);
        let ghost r0 = rv(self.source_to_target_ratio);
        let ghost mut ss: Seq<S::State> = seq![s0];
        let ghost mut fs: Seq<S::Frame> = Seq::empty();
//@loop 0
            invariant
                s0 == old(self).source.st(), c0 == old(self).source.cfg(), is0 == old(self).interpolator.is(),
                v0 == rv(old(self).interpolation_value), r0 == rv(old(self).source_to_target_ratio),
                rv(source_to_target_ratio) == r0,
                source.inv(), source.cfg() == c0,
                chain::<S>(c0, ss, fs), ss[0] == s0, ss.last() == source.st(),
                interpolator.is() == feed_all::<I>(is0, fs),
                rv(*interpolation_value) == v0 - (fs.len() as real), fs.len() == 0 || rv(*interpolation_value) >= 0real,
                fs.len() == 0 ==> ss =~= seq![s0] && *interpolation_value == old(self).interpolation_value,
//@before 0 "interpolator.next_source_frame(source.next());"
            broadcast use float_as_real;
            let ghost is_b = interpolator.is();
//@after 0 "interpolator.next_source_frame(source.next());"
            proof {
                // the frame just pulled is the one the interpolator was fed: name it through the feed contract
                let f = choose|f: S::Frame| S::trans(c0, ss.last(), f, source.st()) && interpolator.is() == I::feed(is_b, f);
                lemma_chain_push::<S>(c0, ss, fs, f, source.st());
                assert(fs.push(f).drop_last() =~= fs);
                ss = ss.push(source.st());
                fs = fs.push(f);
            }
//@before 0 "let out = interpolator.interpolate(*interpolation_value);"
        let ghost xg: f64 = *interpolation_value;
//@tail
        proof {
            assert(I::interp(self.interpolator.is(), xg, tail_));
            assert(rv(xg) == v0 - (fs.len() as real));
            let c = c0; let s = (s0, is0, old(self).interpolation_value, old(self).source_to_target_ratio);
            let s2 = (self.source.st(), self.interpolator.is(), self.interpolation_value, self.source_to_target_ratio);
            assert(s.0 == s0 && s.1 == is0 && rv(s.2) == v0 && rv(s.3) == r0);
            assert(s2.0 == self.source.st() && s2.1 == self.interpolator.is() && s2.2 == self.interpolation_value && s2.3 == self.source_to_target_ratio);
            assert(chain::<S>(c, ss, fs) && ss[0] == s.0 && ss.last() == s2.0);
            assert(I::interp(s2.1, xg, tail_));
            assert(s2.1 == feed_all::<I>(s.1, fs));
            assert(rv(s2.2) == rv(xg) + rv(s.3));
            if rv(s.2) >= 0real {
                assert((fs.len() as real) <= rv(s.2) < (fs.len() as real) + 1real);
                assert(rv(xg) == rv(s.2) - (fs.len() as real));
            } else {
                assert(fs.len() == 0 && s2.0 == s.0 && s2.1 == s.1 && xg == s.2 && s2.3 == s.3);
            }
        }
//@end
//@fn file=dasp_signal/src/interpolate.rs in="impl:<S, I> Signal for Converter<S, I>" name=is_exhausted label=Converter::is_exhausted
//@entry
        broadcast use float_as_real;
//@end
//@endimpl


// ---------------------------------------------------------------------------------------------
// Floor and Linear interpolators (dasp_interpolate), verified against the Interpolator contract
// ---------------------------------------------------------------------------------------------
pub trait Duplex<S> {}
impl<T, S> Duplex<S> for T {}

/// FrameOps::zip_map applies the closure once per channel pair (C03)
pub trait FrameZip: Frame {
    fn zip_map<O, F, M>(self, other: O, zip_map: M) -> (r: F)
        where O: Frame<NumChannels = Self::NumChannels>, F: Frame<NumChannels = Self::NumChannels>,
              M: FnMut(Self::Sample, O::Sample) -> F::Sample
        requires forall|x: Self::Sample, y: O::Sample| call_requires(zip_map, (x, y)),
        ensures forall|i: int| 0 <= i < Self::nch() ==> call_ensures(zip_map, (self.ch(i), other.ch(i)), #[trigger] r.ch(i));
}
impl<T: Frame> FrameZip for T {
    #[verifier::external_body]
    fn zip_map<O, F, M>(self, other: O, zip_map: M) -> (r: F)
        where O: Frame<NumChannels = Self::NumChannels>, F: Frame<NumChannels = Self::NumChannels>,
              M: FnMut(Self::Sample, O::Sample) -> F::Sample
    { unimplemented!() }
}

//@struct file=dasp_interpolate/src/floor.rs name=Floor
//@impl file=dasp_interpolate/src/floor.rs header="impl<F> Interpolator for Floor<F>"
//@item file=dasp_interpolate/src/floor.rs in="impl:<F> Interpolator for Floor<F>" kind=type name=Frame
    type IS = F;
    open spec fn is(&self) -> Self::IS { self.left }
    /// the floor interpolator yields the most recent source frame (the frame at floor(P_n))
    open spec fn interp(s: Self::IS, x: f64, out: Self::Frame) -> bool { out == s }
    open spec fn feed(s: Self::IS, f: Self::Frame) -> Self::IS { f }
    open spec fn reset_state() -> Self::IS { F::equilibrium_spec() }
//@fn file=dasp_interpolate/src/floor.rs in="impl:<F> Interpolator for Floor<F>" name=interpolate label=Floor::interpolate
//@end
//@fn file=dasp_interpolate/src/floor.rs in="impl:<F> Interpolator for Floor<F>" name=next_source_frame label=Floor::next_source_frame
//@end
//@fn file=dasp_interpolate/src/floor.rs in="impl:<F> Interpolator for Floor<F>" name=reset label=Floor::reset
//@end
//@endimpl

/// l + (r - l) * x computed in f64 (as the code does), as a spec term
pub open spec fn lin_f64(l: f64, r: f64, x: f64) -> f64 { r.sub_spec(l).mul_spec(x).add_spec(l) }

/// the straight-line blend of one channel: from_f64(to_f64(l) + (to_f64(r) - to_f64(l)) * x)
pub open spec fn lin_sample<X: Sample>(l: X, r: X, x: f64) -> X {
    conv_spec::<f64, X>(lin_f64(conv_spec::<X, f64>(l), conv_spec::<X, f64>(r), x))
}

/// out is, channel by channel, the straight-line blend of l and r at fraction x
pub open spec fn lin_frame<F: Frame>(out: F, l: F, r: F, x: f64) -> bool {
    forall|i: int| 0 <= i < F::nch() ==> #[trigger] out.ch(i) == lin_sample(l.ch(i), r.ch(i), x)
}

//@struct file=dasp_interpolate/src/linear.rs name=Linear
//@impl file=dasp_interpolate/src/linear.rs header="impl<F> Interpolator for Linear<F>"
//@item file=dasp_interpolate/src/linear.rs in="impl:<F> Interpolator for Linear<F>" kind=type name=Frame
    /// (left, right): the frames at floor(P) and floor(P)+1
    type IS = (F, F);
    open spec fn is(&self) -> Self::IS { (self.left, self.right) }
    /// per channel the straight-line blend of left and right at fraction x
    open spec fn interp(s: Self::IS, x: f64, out: Self::Frame) -> bool { lin_frame(out, s.0, s.1, x) }
    open spec fn feed(s: Self::IS, f: Self::Frame) -> Self::IS { (s.1, f) }
    open spec fn reset_state() -> Self::IS { (F::equilibrium_spec(), F::equilibrium_spec()) }
//@fn file=dasp_interpolate/src/linear.rs in="impl:<F> Interpolator for Linear<F>" name=interpolate label=Linear::interpolate
//@closure 0 "|l, r|"
|l: F::Sample, r: F::Sample| -> (o: F::Sample)
            ensures o == lin_sample(l, r, x)
//@before 0 "let l_f = l.to_sample::<f64>();"
            broadcast use float_as_real;
//@tail
        proof { let s = (self.left, self.right); assert(s.0 == self.left && s.1 == self.right); }
//@end
//@fn file=dasp_interpolate/src/linear.rs in="impl:<F> Interpolator for Linear<F>" name=next_source_frame label=Linear::next_source_frame
//@end
//@fn file=dasp_interpolate/src/linear.rs in="impl:<F> Interpolator for Linear<F>" name=reset label=Linear::reset
//@end
//@endimpl

// ---------------------------------------------------------------------------------------------
// MulHz: the ratio is set from exactly one control frame before every output frame
// ---------------------------------------------------------------------------------------------
//@include _shared/f64_frame.rs

//@struct file=dasp_signal/src/lib.rs name=MulHz
//@impl file=dasp_signal/src/lib.rs header="impl<S, M, I> Signal for MulHz<S, M, I>"
//@item file=dasp_signal/src/lib.rs in="impl:<S, M, I> Signal for MulHz<S, M, I>" kind=type name=Frame
    type State = ((S::State, I::IS, f64, f64), M::State);
    type Cfg = (S::Cfg, M::Cfg);
    open spec fn st(&self) -> Self::State { (self.signal.st(), self.mul_per_frame.st()) }
    open spec fn cfg(&self) -> Self::Cfg { (self.signal.cfg(), self.mul_per_frame.cfg()) }
    open spec fn inv(&self) -> bool { self.signal.inv() && self.mul_per_frame.inv() }
    /// exactly one frame m of the control signal is consumed; it becomes the ratio in effect for this output
    open spec fn trans(c: Self::Cfg, s: Self::State, f: Self::Frame, s2: Self::State) -> bool {
        exists|m: f64| #[trigger] M::trans(c.1, s.1, m, s2.1)
            && Converter::<S, I>::trans(c.0, (s.0.0, s.0.1, s.0.2, m), f, s2.0)
    }
    open spec fn exh(s: Self::State) -> bool { Converter::<S, I>::exh(s.0) || M::exh(s.1) }
//@fn file=dasp_signal/src/lib.rs in="impl:<S, M, I> Signal for MulHz<S, M, I>" name=next label=MulHz::next
//@entry
        let ghost cs0 = self.signal.st();
//@tail
        proof {
            let c = (old(self).signal.cfg(), old(self).mul_per_frame.cfg());
            let s = (cs0, old(self).mul_per_frame.st());
            let s2 = (self.signal.st(), self.mul_per_frame.st());
            assert(c.0 == old(self).signal.cfg() && c.1 == old(self).mul_per_frame.cfg());
            assert(s.0 == cs0 && s.1 == old(self).mul_per_frame.st() && s2.0 == self.signal.st() && s2.1 == self.mul_per_frame.st());
            assert(cs0.0 == old(self).signal.source.st() && cs0.1 == old(self).signal.interpolator.is() && cs0.2 == old(self).signal.interpolation_value);
        }
//@end
//@fn file=dasp_signal/src/lib.rs in="impl:<S, M, I> Signal for MulHz<S, M, I>" name=is_exhausted label=MulHz::is_exhausted
//@end
//@endimpl

// ---------------------------------------------------------------------------------------------
// Property lemmas (C08) over the contracts above, in exact real arithmetic
// ---------------------------------------------------------------------------------------------

/// Position bookkeeping.  Invariant between outputs: pulled + v == P (pulled = source frames consumed so far
/// beyond priming, v = stored interpolation value, P = r_0 + .. + r_(n-1)).  One Converter::next (contract:
/// k == floor(v) frames pulled, output at fraction v - k, v' == v - k + ratio) then gives: when output n is
/// produced exactly floor(P_n) frames have been pulled, the fraction is P_n - floor(P_n), and the invariant
/// holds again for P_(n+1) = P_n + r_n.  Hence no frame is skipped or re-read.
pub proof fn lemma_position_step(pulled: int, v: real, p: real, k: int, ratio: real)
    requires pulled as real + v == p, v >= 0real, (k as real) <= v < (k as real) + 1real,
    ensures
        k >= 0,
        ((pulled + k) as real) <= p < ((pulled + k) as real) + 1real,      // floor(P_n) == pulled + k
        v - (k as real) == p - ((pulled + k) as real),                      // fraction == P_n - floor(P_n)
        ((pulled + k) as real) + (v - (k as real) + ratio) == p + ratio,    // invariant for the next output
{}

/// a ratio of exactly 1 (with the position at 1 after the first output) pulls exactly one frame per output
/// and evaluates the interpolator at fraction 0, forever
pub proof fn lemma_ratio_one(v: real, k: int)
    requires v == 1real, (k as real) <= v < (k as real) + 1real
    ensures k == 1, v - (k as real) == 0real, v - (k as real) + 1real == 1real
{}

/// the linear blend in real arithmetic: l + (r - l) x
pub proof fn lemma_lin_value(l: f64, r: f64, x: f64)
    ensures rv(lin_f64(l, r, x)) == rv(l) + (rv(r) - rv(l)) * rv(x)
{
    broadcast use float_as_real;
}

/// ... never leaves the interval spanned by the two frames for 0 <= x < 1, and equals the left frame at x == 0
pub proof fn lemma_lin_between(l: f64, r: f64, x: f64)
    requires 0real <= rv(x) < 1real
    ensures
        rv(l) <= rv(r) ==> rv(l) <= rv(lin_f64(l, r, x)) <= rv(r),
        rv(r) <= rv(l) ==> rv(r) <= rv(lin_f64(l, r, x)) <= rv(l),
        rv(x) == 0real ==> rv(lin_f64(l, r, x)) == rv(l),
{
    lemma_lin_value(l, r, x);
    let a = rv(l); let b = rv(r); let t = rv(x);
    assert(a <= b ==> 0real <= (b - a) * t <= (b - a)) by (nonlinear_arith) requires 0real <= t < 1real;
    assert(b <= a ==> (b - a) <= (b - a) * t <= 0real) by (nonlinear_arith) requires 0real <= t < 1real;
    assert(t == 0real ==> (b - a) * t == 0real) by (nonlinear_arith);
}
} // verus!
fn main() {}
