// Unit bus (C13): dasp_signal::bus::SharedNode::{next_frame, pending_frames, drop_output} — the logic of the bus —
// verified against local stand-ins for BTreeMap<usize,usize> and VecDeque<F> (T3) and the Signal trait contract.
// The five std-iterator expressions of the original (`values().any(..)`, `values().fold(..)`, two
// `for x in values_mut() { *x -= d }` loops, `buffer[i]`, `frames_read[&key]`) are read through helper methods of the
// stand-ins (R-subst, listed per function): a change INSIDE one of those expressions loses its anchor (exit 2).
// Bus::send and the Output methods are verified with the RefCell borrow read as a parameter (R-refcell); the Rc/RefCell
// handle itself and the drop glue that calls Drop::drop are not verified.
use vstd::prelude::*;
use vstd::std_specs::ops::*;
use vstd::std_specs::cmp::*;
verus! {

//@include _shared/signal_prelude.rs

// ---------------------------------------------------------------------------------------------
// stand-ins (assumed contracts on the std collections)
// ---------------------------------------------------------------------------------------------
pub struct VecDeque<T> { pub s: Ghost<Seq<T>> }
impl<T: Copy> VecDeque<T> {
    pub open spec fn view(&self) -> Seq<T> { self.s@ }
    #[verifier::external_body]
    pub fn len(&self) -> (r: usize) ensures r == self.view().len() { unimplemented!() }
    #[verifier::external_body]
    pub fn is_empty(&self) -> (r: bool) ensures r == (self.view().len() == 0) { unimplemented!() }
    #[verifier::external_body]
    pub fn push_back(&mut self, x: T) ensures final(self).view() == old(self).view().push(x) { unimplemented!() }
    #[verifier::external_body]
    pub fn pop_front(&mut self) -> (r: Option<T>)
        ensures old(self).view().len() == 0 ==> r is None && final(self).view() == old(self).view(),
            old(self).view().len() > 0 ==> r == Some(old(self).view()[0]) && final(self).view() == old(self).view().drop_first()
    { unimplemented!() }
    /// `self.buffer[i]` (panics when out of range)
    #[verifier::external_body]
    pub fn at_(&self, i: usize) -> (r: T) requires i < self.view().len() ensures r == self.view()[i as int] { unimplemented!() }
}

pub struct BTreeMap<K, V> { pub m: Ghost<Map<K, V>> }
impl BTreeMap<usize, usize> {
    pub open spec fn view(&self) -> Map<usize, usize> { self.m@ }
    #[verifier::external_body]
    pub fn insert(&mut self, k: usize, v: usize) -> (r: Option<usize>)
        ensures final(self).view() == old(self).view().insert(k, v) { unimplemented!() }
    #[verifier::external_body]
    pub fn remove(&mut self, k: &usize) -> (r: Option<usize>)
        ensures final(self).view() == old(self).view().remove(*k),
            r == (if old(self).view().dom().contains(*k) { Some(old(self).view()[*k]) } else { None::<usize> })
    { unimplemented!() }
    /// `self.frames_read[&key]` (panics when absent)
    #[verifier::external_body]
    pub fn get_(&self, k: usize) -> (r: usize) requires self.view().dom().contains(k) ensures r == self.view()[k] { unimplemented!() }
    /// `.values().any(|&v| v <= x)`
    #[verifier::external_body]
    pub fn any_value_le_(&self, x: usize) -> (r: bool)
        ensures r == (exists|k: usize| self.view().dom().contains(k) && #[trigger] self.view()[k] <= x) { unimplemented!() }
    /// `.values().fold(init, |a, &b| min(a, b))`
    #[verifier::external_body]
    pub fn min_value_or_(&self, init: usize) -> (r: usize)
        ensures r <= init, forall|k: usize| self.view().dom().contains(k) ==> r <= #[trigger] self.view()[k],
            r == init || exists|k: usize| self.view().dom().contains(k) && #[trigger] self.view()[k] == r { unimplemented!() }
    /// `for v in self.values_mut() { *v -= d; }` (panics on underflow in builds with overflow checks)
    #[verifier::external_body]
    pub fn sub_from_all_(&mut self, d: usize)
        requires forall|k: usize| old(self).view().dom().contains(k) ==> #[trigger] old(self).view()[k] >= d,
        ensures final(self).view().dom() == old(self).view().dom(),
            forall|k: usize| old(self).view().dom().contains(k) ==> #[trigger] final(self).view()[k] == old(self).view()[k] - d
    { unimplemented!() }
}

/// every OTHER output has read strictly more than fr frames of the backlog
pub open spec fn others_gt(m: Map<usize, usize>, key: usize, fr: usize) -> bool {
    forall|k: usize| m.dom().contains(k) && k != key ==> #[trigger] m[k] > fr
}

/// THE per-call contract of `Output::next` on the abstract view (read counts m, backlog buf): the output receives
/// the frame at ITS position, the oldest frame is released exactly when this output was the only one still needing it
pub open spec fn next_frame_post<F>(key: usize, m: Map<usize, usize>, buf: Seq<F>, r: F, m2: Map<usize, usize>, buf2: Seq<F>) -> bool {
    let fr = m[key];
    let buf1 = if fr >= buf.len() { buf.push(r) } else { buf };
    &&& (fr < buf.len() ==> r == buf[fr as int])
    &&& (others_gt(m, key, fr) ==> buf2 =~= buf1.drop_first() && m2[key] == fr
            && forall|k: usize| m.dom().contains(k) && k != key ==> #[trigger] m2[k] == m[k] - 1)
    &&& (!others_gt(m, key, fr) ==> buf2 =~= buf1 && m2[key] == fr + 1
            && forall|k: usize| m.dom().contains(k) && k != key ==> #[trigger] m2[k] == m[k])
}

//@struct file=dasp_signal/src/bus.rs name=SharedNode

//@impl file=dasp_signal/src/bus.rs header="impl<S> SharedNode<S>"
    /// representation invariant of the shared bus state: every output's read count is within the backlog, and the
    /// backlog holds ONLY what the slowest live output still needs (some output has read 0 of it; none => empty)
    pub open spec fn wf(&self) -> bool {
        self.signal.inv()
        && (forall|k: usize| self.frames_read.view().dom().contains(k) ==> #[trigger] self.frames_read.view()[k] <= self.buffer.view().len())
        && (self.buffer.view().len() > 0 ==> exists|k: usize| self.frames_read.view().dom().contains(k) && #[trigger] self.frames_read.view()[k] == 0)
    }

//@endimpl

// Bus::send: R-refcell (the `self.node.borrow_mut()` line is removed, `node` is a parameter) and the returned
// `Output { key, node: self.node.clone() }` is reduced to its key (the Rc handle is plumbing)
//@fn file=dasp_signal/src/bus.rs in="impl:<S> Bus<S>" name=send label=Bus::send "sig=fn bus_send<S: Signal>(node: &mut SharedNode<S>) -> (r: usize)" "rules=R-subst:let mut node = self.node.borrow_mut();=>,R-subst:Output { key: key, node: self.node.clone(), }=>key"
//@spec
        requires old(node).wf(), !old(node).frames_read.view().dom().contains(old(node).next_key),
        ensures final(node).wf(), final(node).signal == old(node).signal, final(node).buffer == old(node).buffer,
            r == old(node).next_key,
            // a new output has, by definition, read the whole current backlog: it starts with the first frame nobody has pulled yet
            final(node).frames_read.view() == old(node).frames_read.view().insert(r, old(node).buffer.view().len() as usize),
//@tail
        proof {
            let m0 = old(node).frames_read.view(); let m2 = node.frames_read.view();
            if node.buffer.view().len() > 0 {
                let z = choose|k: usize| m0.dom().contains(k) && #[trigger] m0[k] == 0;
                assert(z != tail_);
                assert(m2.dom().contains(z) && m2[z] == 0);
            }
        }
//@end

//@impl file=dasp_signal/src/bus.rs header="impl<S> SharedNode<S>" as="impl<S> SharedNode<S>"
//@fn file=dasp_signal/src/bus.rs in="impl:<S> SharedNode<S>" name=next_frame ret=r label=SharedNode::next_frame "rules=R-subst:self.buffer[frames_read]=>self.buffer.at_(frames_read),R-subst:.values() .any(|&other_frames_read| other_frames_read <= frames_read)=>.any_value_le_(frames_read),R-subst:for other_frames_read in self.frames_read.values_mut() { *other_frames_read -= 1; }=>self.frames_read.sub_from_all_(1);"
//@spec
        requires old(self).wf(), old(self).frames_read.view().dom().contains(key),
            old(self).buffer.view().len() < usize::MAX,      // T5: the backlog never holds usize::MAX frames
        ensures
            final(self).wf(), final(self).signal.cfg() == old(self).signal.cfg(),
            final(self).frames_read.view().dom() == old(self).frames_read.view().dom(),
            next_frame_post(key, old(self).frames_read.view(), old(self).buffer.view(), r,
                            final(self).frames_read.view(), final(self).buffer.view()),
            // an output that has read the whole backlog pulls EXACTLY ONE new frame; any other output pulls nothing
            old(self).frames_read.view()[key] >= old(self).buffer.view().len() ==>
                S::trans(old(self).signal.cfg(), old(self).signal.st(), r, final(self).signal.st()),
            old(self).frames_read.view()[key] < old(self).buffer.view().len() ==>
                final(self).signal.st() == old(self).signal.st(),
//@after 0 ".expect("
        let ghost m0 = old(self).frames_read.view();
        let ghost b0 = old(self).buffer.view();
        let ghost m1 = self.frames_read.view();
        proof {
            assert(frames_read == m0[key]);
            assert(m1 == m0.remove(key));
            assert(forall|k: usize| m1.dom().contains(k) ==> k != key && m0.dom().contains(k) && m1[k] == m0[k]);
        }
//@before 0 "let new_frames_read = if least_frames_read {"
        let ghost b1 = self.buffer.view();
        proof {
            assert(b1.len() >= 1);
            assert(least_frames_read == others_gt(m0, key, frames_read)) by {
                if !least_frames_read {
                    let k = choose|k: usize| m1.dom().contains(k) && #[trigger] m1[k] <= frames_read;
                    assert(m0.dom().contains(k) && k != key && m0[k] <= frames_read);
                } else {
                    assert forall|k: usize| m0.dom().contains(k) && k != key implies #[trigger] m0[k] > frames_read by {
                        assert(m1.dom().contains(k));
                        if m1[k] <= frames_read { assert(exists|k2: usize| m1.dom().contains(k2) && #[trigger] m1[k2] <= frames_read); }
                    }
                }
            }
            if least_frames_read {
                // this output was the only one still needing the oldest frame: it had read 0 frames of the backlog
                if b0.len() > 0 {
                    let z = choose|k: usize| m0.dom().contains(k) && #[trigger] m0[k] == 0;
                    if z != key { assert(m0[z] > frames_read); }
                }
                assert(frames_read == 0);
                assert forall|k: usize| m1.dom().contains(k) implies #[trigger] m1[k] >= 1 by { assert(m0[k] > frames_read); }
            }
        }
//@tail
        proof {
            let m2 = self.frames_read.view(); let b2 = self.buffer.view();
            assert forall|k: usize| m2.dom().contains(k) implies #[trigger] m2[k] <= b2.len() by {
                if k != key { assert(m0.dom().contains(k)); assert(m0[k] <= b0.len()); }
            }
            if b2.len() > 0 {
                if least_frames_read {
                    assert(m2.dom().contains(key) && m2[key] == 0);
                } else {
                    // some OTHER output had read no more than this one
                    let k1 = choose|k: usize| m1.dom().contains(k) && #[trigger] m1[k] <= frames_read;
                    if b0.len() > 0 {
                        let z = choose|k: usize| m0.dom().contains(k) && #[trigger] m0[k] == 0;
                        if z != key { assert(m2.dom().contains(z) && m2[z] == 0); }
                        else { assert(frames_read == 0); assert(m2.dom().contains(k1) && m2[k1] == 0); }
                    } else {
                        assert(frames_read == 0);
                        assert(m2.dom().contains(k1) && m2[k1] == 0);
                    }
                }
            }
        }
//@end

//@fn file=dasp_signal/src/bus.rs in="impl:<S> SharedNode<S>" name=pending_frames ret=r label=SharedNode::pending_frames "rules=R-subst:self.frames_read[&key]=>self.frames_read.get_(key)"
//@spec
        requires self.wf(), self.frames_read.view().dom().contains(key),
        // pending count == frames already pulled from the source that this output has not yet received
        ensures r == self.buffer.view().len() - self.frames_read.view()[key],
//@end

//@fn file=dasp_signal/src/bus.rs in="impl:<S> SharedNode<S>" name=drop_output label=SharedNode::drop_output "rules=R-subst:.values() .fold(self.buffer.len(), |a, &b| core::cmp::min(a, b))=>.min_value_or_(self.buffer.len()),R-subst:for frames_read in self.frames_read.values_mut() { *frames_read -= least_frames_read; }=>self.frames_read.sub_from_all_(least_frames_read);"
//@spec
        requires old(self).wf(),
        ensures
            final(self).wf(), final(self).signal == old(self).signal,
            final(self).frames_read.view().dom() == old(self).frames_read.view().dom().remove(key),
            // the backlog keeps exactly what the slowest REMAINING output still needs (empty when none remain)
            exists|d: usize| d <= old(self).buffer.view().len()
                && #[trigger] final(self).buffer.view() =~= old(self).buffer.view().subrange(d as int, old(self).buffer.view().len() as int)
                && (forall|k: usize| final(self).frames_read.view().dom().contains(k) ==>
                        #[trigger] final(self).frames_read.view()[k] == old(self).frames_read.view()[k] - d),
            (forall|k: usize| !final(self).frames_read.view().dom().contains(k)) ==> final(self).buffer.view().len() == 0,
//@after 0 "self.frames_read.remove(&key);"
        let ghost m0 = old(self).frames_read.view();
        let ghost b0 = old(self).buffer.view();
        let ghost m1 = self.frames_read.view();
        proof { assert(forall|k: usize| m1.dom().contains(k) ==> k != key && m0.dom().contains(k) && m1[k] == m0[k] && m1[k] <= b0.len()); }
//@loop 0 iter=it var=j
                invariant
                    it.iter.end == least_frames_read, least_frames_read <= b0.len(), j_ <= least_frames_read,
                    self.buffer.view() =~= b0.subrange(j_ as int, b0.len() as int),
                    self.signal == old(self).signal,
                    self.frames_read.view().dom() == m1.dom(),
                    forall|k: usize| m1.dom().contains(k) ==> #[trigger] self.frames_read.view()[k] == m1[k] - least_frames_read,
//@tail
        proof {
            let d = least_frames_read;
            let m2 = self.frames_read.view(); let b2 = self.buffer.view();
            assert(b2 =~= b0.subrange(d as int, b0.len() as int));
            assert forall|k: usize| m2.dom().contains(k) implies #[trigger] m2[k] == m0[k] - d && m2[k] <= b2.len() by {
                assert(m1.dom().contains(k));
            }
            if b2.len() > 0 {
                // d < len: some remaining output attains the minimum d, it now has read 0 frames of the backlog
                let z = choose|k: usize| m1.dom().contains(k) && #[trigger] m1[k] == d;
                assert(m2.dom().contains(z) && m2[z] == 0);
            }
        }
//@end
//@endimpl


// Output plumbing: each method forwards to the SharedNode method with ITS OWN key (R-refcell: `self.node.borrow[_mut]()`
// is read as the parameter `node`, `self.key` as the parameter `key`; the Rc/RefCell handle itself is not verified)
//@fn file=dasp_signal/src/bus.rs in="impl:<S> Output<S>" name=pending_frames label=Output::pending_frames "sig=fn output_pending_frames<S: Signal>(key: usize, node: &SharedNode<S>) -> (r: usize)" "rules=R-subst:self.node.borrow()=>node,R-subst:self.key=>key"
//@spec
        requires node.wf(), node.frames_read.view().dom().contains(key),
        ensures r == node.buffer.view().len() - node.frames_read.view()[key],
//@end

//@fn file=dasp_signal/src/bus.rs in="impl:<S> Signal for Output<S>" name=next label=Output::next "sig=fn output_next<S: Signal>(key: usize, node: &mut SharedNode<S>) -> (r: S::Frame)" "rules=R-subst:self.node.borrow_mut()=>node,R-subst:self.key=>key"
//@spec
        requires old(node).wf(), old(node).frames_read.view().dom().contains(key),
            old(node).buffer.view().len() < usize::MAX,
        ensures
            final(node).wf(), final(node).signal.cfg() == old(node).signal.cfg(),
            final(node).frames_read.view().dom() == old(node).frames_read.view().dom(),
            next_frame_post(key, old(node).frames_read.view(), old(node).buffer.view(), r,
                            final(node).frames_read.view(), final(node).buffer.view()),
            old(node).frames_read.view()[key] >= old(node).buffer.view().len() ==>
                S::trans(old(node).signal.cfg(), old(node).signal.st(), r, final(node).signal.st()),
            old(node).frames_read.view()[key] < old(node).buffer.view().len() ==>
                final(node).signal.st() == old(node).signal.st(),
//@end

//@fn file=dasp_signal/src/bus.rs in="impl:<S> Signal for Output<S>" name=is_exhausted label=Output::is_exhausted "sig=fn output_is_exhausted<S: Signal>(key: usize, node: &SharedNode<S>) -> (r: bool)" "rules=R-subst:let node = self.node.borrow();=>,R-subst:self.key=>key"
//@spec
        requires node.wf(), node.frames_read.view().dom().contains(key), node.signal.inv(),
        // exhausted exactly when nothing is pending for THIS output and the source is exhausted
        ensures r == (node.buffer.view().len() - node.frames_read.view()[key] == 0 && S::exh(node.signal.st())),
//@end

//@fn file=dasp_signal/src/bus.rs in="impl:<S> Drop for Output<S>" name=drop label=Output::drop "sig=fn output_drop<S: Signal>(key: usize, node: &mut SharedNode<S>)" "rules=R-subst:self.node.borrow_mut()=>node,R-subst:self.key=>key"
//@spec
        requires old(node).wf(),
        ensures
            final(node).wf(), final(node).signal == old(node).signal,
            final(node).frames_read.view().dom() == old(node).frames_read.view().dom().remove(key),
            exists|d: usize| d <= old(node).buffer.view().len()
                && #[trigger] final(node).buffer.view() =~= old(node).buffer.view().subrange(d as int, old(node).buffer.view().len() as int)
                && (forall|k: usize| final(node).frames_read.view().dom().contains(k) ==>
                        #[trigger] final(node).frames_read.view()[k] == old(node).frames_read.view()[k] - d),
            (forall|k: usize| !final(node).frames_read.view().dom().contains(k)) ==> final(node).buffer.view().len() == 0,
//@end

// ---------------------------------------------------------------------------------------------
// The property (C13) as lemmas over the per-call contracts
// ---------------------------------------------------------------------------------------------

/// h: every frame pulled from the source so far; base: how many of them have been released from the backlog.
/// Output k has received exactly the frames h[.. base + m[k]); the backlog is h[base ..].
pub open spec fn bus_inv<F>(h: Seq<F>, base: int, m: Map<usize, usize>, buf: Seq<F>) -> bool {
    0 <= base && base + buf.len() == h.len() && buf =~= h.subrange(base, h.len() as int)
    && forall|k: usize| m.dom().contains(k) ==> #[trigger] m[k] <= buf.len()
}

/// One `next()` of output `key`: it receives the frame at ITS position of the common history (no loss, duplication
/// or reordering), its position advances by one, every other output's position is untouched, and the source is
/// pulled exactly when this output is at the head of the history (once per distinct frame).
pub proof fn lemma_bus_next<F>(h: Seq<F>, base: int, m: Map<usize, usize>, buf: Seq<F>, key: usize, r: F,
                               m2: Map<usize, usize>, buf2: Seq<F>)
    requires bus_inv(h, base, m, buf), m.dom().contains(key), m2.dom() == m.dom(),
        next_frame_post(key, m, buf, r, m2, buf2),
    ensures ({
        let pulled = m[key] >= buf.len();
        let h2 = if pulled { h.push(r) } else { h };
        let base2 = if others_gt(m, key, m[key]) { base + 1 } else { base };
        &&& pulled == (base + m[key] == h.len())
        &&& r == h2[base + m[key]]
        &&& bus_inv(h2, base2, m2, buf2)
        &&& base2 + m2[key] == base + m[key] + 1
        &&& forall|k: usize| m.dom().contains(k) && k != key ==> base2 + #[trigger] m2[k] == base + m[k]
    }),
{
    let fr = m[key];
    let pulled = fr >= buf.len();
    let h2 = if pulled { h.push(r) } else { h };
    let buf1 = if pulled { buf.push(r) } else { buf };
    assert(buf1 =~= h2.subrange(base, h2.len() as int));
    if others_gt(m, key, fr) {
        assert(buf2 =~= h2.subrange(base + 1, h2.len() as int));
    }
}

/// pending count (contract of pending_frames: backlog length minus read count) == frames pulled so far that this
/// output has not yet received
pub proof fn lemma_bus_pending<F>(h: Seq<F>, base: int, m: Map<usize, usize>, buf: Seq<F>, key: usize)
    requires bus_inv(h, base, m, buf), m.dom().contains(key)
    ensures buf.len() - m[key] == h.len() - (base + m[key])
{}
} // verus!
fn main() {}
