// Unit osc (C17, phases of C20): Rate / ConstHz / Hz / Step / Phase / Sine / Saw / Square over float_as_real.
// R-frem: the f64 `%` operator is read through the helper `frem_` whose contract is the real modulus.
use vstd::prelude::*;
use vstd::std_specs::ops::*;
use vstd::std_specs::cmp::*;
verus! {

//@include _shared/float_as_real.rs
//@include _shared/signal_prelude.rs
//@include _shared/f64_frame.rs

proof fn mustfail_osc_axioms_consistent() { broadcast use float_as_real; broadcast use sin_facts; assert(false); }

/// a === b (mod m) over the reals: they differ by an integer multiple of m
pub open spec fn rcong(a: real, b: real, m: real) -> bool { exists|k: int| #[trigger] rmul(k, m) == a - b }
pub open spec fn rmul(k: int, m: real) -> real { (k as real) * m }

/// R-frem: `a % b` on f64 (a >= 0, b > 0): the real modulus — in [0, b) and congruent to a modulo b
/// (T4; the bit-precise range statement is proved separately by the Kani harness c17_phase_wrap_bits)
#[verifier::external_body]
fn frem_(a: f64, b: f64) -> (r: f64)
    ensures rv(a) >= 0real && rv(b) > 0real ==> 0real <= rv(r) < rv(b) && rcong(rv(r), rv(a), rv(b)),
{ a % b }

/// R-fdiv: `a / b` on f64 where the divisor is read from a struct field is read through this helper (the
/// installed Verus does not discharge `div_req` for field-derived operands; same contract as the operator)
#[verifier::external_body]
fn fdiv_(a: f64, b: f64) -> (r: f64) ensures r == a.div_spec(b) { a / b }

pub uninterp spec fn sin_r(x: real) -> real;
pub uninterp spec fn pi_r() -> real;
pub broadcast axiom fn ax_sin_range(x: real) ensures -1real <= #[trigger] sin_r(x) <= 1real;
pub broadcast group sin_facts { ax_sin_range }
pub uninterp spec fn pi_f64() -> f64;
#[verifier::external_body]
#[allow(non_snake_case)]
fn PI_() -> (r: f64) ensures r == pi_f64(), rv(r) == pi_r() { core::f64::consts::PI }
/// dasp_signal::ops::f64::sin (std or intrinsic): assumed to compute the sine (libm is not verified)
pub mod ops { pub mod f64 {
    use super::super::*;
    #[verifier::external_body]
    pub fn sin(x: f64) -> (r: f64) ensures rv(r) == sin_r(rv(x)) { x.sin() }
} }

// ---------------------------------------------------------------------------------------------
// contract of the trait Step (the repository's trait carries no specification)
// ---------------------------------------------------------------------------------------------
pub trait Step {
    type SSt;
    type SCfg;
    spec fn sst(&self) -> Self::SSt;
    spec fn scfg(&self) -> Self::SCfg;
    spec fn sinv(&self) -> bool;
    /// one step(): yields the phase increment v
    spec fn strans(c: Self::SCfg, s: Self::SSt, v: f64, s2: Self::SSt) -> bool;
    fn step(&mut self) -> (r: f64)
        requires (*old(self)).sinv(),
        ensures (*final(self)).sinv(), (*final(self)).scfg() == (*old(self)).scfg(),
            Self::strans((*old(self)).scfg(), (*old(self)).sst(), r, (*final(self)).sst());
}

//@struct file=dasp_signal/src/lib.rs name=Rate
//@struct file=dasp_signal/src/lib.rs name=ConstHz
//@struct file=dasp_signal/src/lib.rs name=Hz
//@struct file=dasp_signal/src/lib.rs name=Phase
//@struct file=dasp_signal/src/lib.rs name=Sine
//@struct file=dasp_signal/src/lib.rs name=Saw
//@struct file=dasp_signal/src/lib.rs name=Square

//@fn file=dasp_signal/src/lib.rs in="top" name=rate ret=r label=rate
//@spec
        ensures r.hz == hz,
//@end
//@fn file=dasp_signal/src/lib.rs in="top" name=phase ret=r label=phase
//@spec
        // the phase starts at 0
        ensures r.step == step, rv(r.next) == 0real,
//@entry
        broadcast use float_as_real;
//@end

//@impl file=dasp_signal/src/lib.rs header="impl Rate"
//@fn file=dasp_signal/src/lib.rs in="impl:Rate" name=const_hz ret=r label=Rate::const_hz vis=pub "rules=R-subst:hz / self.hz=>fdiv_(hz, self.hz)"
//@spec
        // step == frequency / rate
        ensures r.step == hz.div_spec(self.hz),      // (lemma_step_value: its real value is hz / rate)
//@entry
        broadcast use float_as_real;
//@end
//@fn file=dasp_signal/src/lib.rs in="impl:Rate" name=hz ret=r label=Rate::hz vis=pub
//@spec
        ensures r.hz == hz, r.rate == self,
//@end
//@endimpl

//@impl file=dasp_signal/src/lib.rs header="impl Step for ConstHz"
    type SSt = ();
    type SCfg = f64;
    open spec fn sst(&self) -> () { () }
    open spec fn scfg(&self) -> f64 { self.step }
    open spec fn sinv(&self) -> bool { true }
    open spec fn strans(c: f64, s: (), v: f64, s2: ()) -> bool { v == c }
//@fn file=dasp_signal/src/lib.rs in="impl:Step for ConstHz" name=step label=ConstHz::step
//@end
//@endimpl

//@impl file=dasp_signal/src/lib.rs header="impl<S> Step for Hz<S>"
    type SSt = S::State;
    /// (configuration of the frequency signal, sample rate)
    type SCfg = (S::Cfg, f64);
    open spec fn sst(&self) -> S::State { self.hz.st() }
    open spec fn scfg(&self) -> (S::Cfg, f64) { (self.hz.cfg(), self.rate.hz) }
    open spec fn sinv(&self) -> bool { self.hz.inv() }
    /// a variable-frequency step consumes EXACTLY ONE frequency frame: increment == frequency / rate
    open spec fn strans(c: (S::Cfg, f64), s: S::State, v: f64, s2: S::State) -> bool {
        exists|hz: f64| #[trigger] S::trans(c.0, s, hz, s2) && v == hz.div_spec(c.1)
    }
//@fn file=dasp_signal/src/lib.rs in="impl:<S> Step for Hz<S>" name=step label=Hz::step "rules=R-subst:hz / self.rate.hz=>fdiv_(hz, self.rate.hz)"
//@entry
        broadcast use float_as_real;
//@tail
        proof { let c = (old(self).hz.cfg(), old(self).rate.hz); assert(c.0 == old(self).hz.cfg() && c.1 == old(self).rate.hz); }
//@end
//@endimpl

//@impl file=dasp_signal/src/lib.rs header="impl<S> Phase<S>" has=next_phase
//@fn file=dasp_signal/src/lib.rs in="impl:<S> Phase<S>" name=next_phase_wrapped_to ret=r label=Phase::next_phase_wrapped_to vis=pub "rules=R-subst:(self.next + self.step.step()) % rem=>frem_(self.next + self.step.step(), rem)"
//@spec
        requires old(self).step.sinv(),
        ensures
            final(self).step.sinv(), final(self).step.scfg() == old(self).step.scfg(),
            r == old(self).next,                                   // yields the current phase
            exists|v: f64| #[trigger] S::strans(old(self).step.scfg(), old(self).step.sst(), v, final(self).step.sst())
                // and advances it by the step, wrapped into [0, rem)
                && (rv(old(self).next) + rv(v) >= 0real && rv(rem) > 0real ==>
                        0real <= rv(final(self).next) < rv(rem)
                        && rcong(rv(final(self).next), rv(old(self).next) + rv(v), rv(rem))),
//@entry
        broadcast use float_as_real;
//@end
//@fn file=dasp_signal/src/lib.rs in="impl:<S> Phase<S>" name=next_phase ret=r label=Phase::next_phase vis=pub
//@spec
        requires old(self).step.sinv(),
        ensures
            final(self).step.sinv(), final(self).step.scfg() == old(self).step.scfg(),
            r == old(self).next,
            exists|v: f64| #[trigger] S::strans(old(self).step.scfg(), old(self).step.sst(), v, final(self).step.sst())
                && (rv(old(self).next) + rv(v) >= 0real ==>
                        0real <= rv(final(self).next) < 1real
                        && rcong(rv(final(self).next), rv(old(self).next) + rv(v), 1real)),
//@entry
        broadcast use float_as_real;
//@end
//@endimpl


//@impl file=dasp_signal/src/lib.rs header="impl Signal for ConstHz"
//@item file=dasp_signal/src/lib.rs in="impl:Signal for ConstHz" kind=type name=Frame
    type State = ();
    type Cfg = f64;
    open spec fn st(&self) -> () { () }
    open spec fn cfg(&self) -> f64 { self.step }
    open spec fn inv(&self) -> bool { true }
    open spec fn trans(c: f64, s: (), f: f64, s2: ()) -> bool { f == c }
    open spec fn exh(s: ()) -> bool { false }
//@fn file=dasp_signal/src/lib.rs in="impl:Signal for ConstHz" name=next label=ConstHz::next
//@end
    fn is_exhausted(&self) -> bool { false }     // default method of trait Signal (returns false)
//@endimpl

//@impl file=dasp_signal/src/lib.rs header="impl<S> Signal for Phase<S>"
//@item file=dasp_signal/src/lib.rs in="impl:<S> Signal for Phase<S>" kind=type name=Frame
    /// (state of the step source, phase to be yielded next)
    type State = (S::SSt, f64);
    type Cfg = S::SCfg;
    open spec fn st(&self) -> Self::State { (self.step.sst(), self.next) }
    open spec fn cfg(&self) -> Self::Cfg { self.step.scfg() }
    open spec fn inv(&self) -> bool { self.step.sinv() }
    open spec fn trans(c: Self::Cfg, s: Self::State, f: f64, s2: Self::State) -> bool {
        f == s.1 && exists|v: f64| #[trigger] S::strans(c, s.0, v, s2.0)
            && (rv(s.1) + rv(v) >= 0real ==> 0real <= rv(s2.1) < 1real && rcong(rv(s2.1), rv(s.1) + rv(v), 1real))
    }
    open spec fn exh(s: Self::State) -> bool { false }
//@fn file=dasp_signal/src/lib.rs in="impl:<S> Signal for Phase<S>" name=next label=Phase::next
//@tail
        proof { let s = (old(self).step.sst(), old(self).next); let s2 = (self.step.sst(), self.next);
            assert(s.0 == old(self).step.sst() && s.1 == old(self).next && s2.0 == self.step.sst() && s2.1 == self.next); }
//@end
    fn is_exhausted(&self) -> bool { false }
//@endimpl

/// waveform contracts: the value yielded for phase p
pub open spec fn saw_f64(p: f64) -> f64 { p.mul_spec(-2.0f64).add_spec(1.0f64) }

//@impl file=dasp_signal/src/lib.rs header="impl<S> Signal for Saw<S>"
//@item file=dasp_signal/src/lib.rs in="impl:<S> Signal for Saw<S>" kind=type name=Frame
    type State = (S::SSt, f64);
    type Cfg = S::SCfg;
    open spec fn st(&self) -> Self::State { (self.phase.step.sst(), self.phase.next) }
    open spec fn cfg(&self) -> Self::Cfg { self.phase.step.scfg() }
    open spec fn inv(&self) -> bool { self.phase.step.sinv() }
    /// saw == 1 - 2 * phase, and the phase advances exactly as Phase does
    open spec fn trans(c: Self::Cfg, s: Self::State, f: f64, s2: Self::State) -> bool {
        f == saw_f64(s.1) && Phase::<S>::trans(c, s, s.1, s2)
    }
    open spec fn exh(s: Self::State) -> bool { false }
//@fn file=dasp_signal/src/lib.rs in="impl:<S> Signal for Saw<S>" name=next label=Saw::next
//@entry
        broadcast use float_as_real;
//@tail
        proof { let s = (old(self).phase.step.sst(), old(self).phase.next); let s2 = (self.phase.step.sst(), self.phase.next);
            assert(s.0 == old(self).phase.step.sst() && s.1 == old(self).phase.next && s2.0 == self.phase.step.sst() && s2.1 == self.phase.next); }
//@end
    fn is_exhausted(&self) -> bool { false }
//@endimpl

//@impl file=dasp_signal/src/lib.rs header="impl<S> Signal for Square<S>"
//@item file=dasp_signal/src/lib.rs in="impl:<S> Signal for Square<S>" kind=type name=Frame
    type State = (S::SSt, f64);
    type Cfg = S::SCfg;
    open spec fn st(&self) -> Self::State { (self.phase.step.sst(), self.phase.next) }
    open spec fn cfg(&self) -> Self::Cfg { self.phase.step.scfg() }
    open spec fn inv(&self) -> bool { self.phase.step.sinv() }
    /// square == +1 on the first half-cycle, -1 on the second
    open spec fn trans(c: Self::Cfg, s: Self::State, f: f64, s2: Self::State) -> bool {
        rv(f) == (if rv(s.1) < 1real / 2real { 1real } else { -1real }) && Phase::<S>::trans(c, s, s.1, s2)
    }
    open spec fn exh(s: Self::State) -> bool { false }
//@fn file=dasp_signal/src/lib.rs in="impl:<S> Signal for Square<S>" name=next label=Square::next
//@entry
        broadcast use float_as_real;
//@tail
        proof { let s = (old(self).phase.step.sst(), old(self).phase.next); let s2 = (self.phase.step.sst(), self.phase.next);
            assert(s.0 == old(self).phase.step.sst() && s.1 == old(self).phase.next && s2.0 == self.phase.step.sst() && s2.1 == self.phase.next); }
//@end
    fn is_exhausted(&self) -> bool { false }
//@endimpl

//@impl file=dasp_signal/src/lib.rs header="impl<S> Signal for Sine<S>"
//@item file=dasp_signal/src/lib.rs in="impl:<S> Signal for Sine<S>" kind=type name=Frame
    type State = (S::SSt, f64);
    type Cfg = S::SCfg;
    open spec fn st(&self) -> Self::State { (self.phase.step.sst(), self.phase.next) }
    open spec fn cfg(&self) -> Self::Cfg { self.phase.step.scfg() }
    open spec fn inv(&self) -> bool { self.phase.step.sinv() }
    /// sine == sin(2 pi phase)
    open spec fn trans(c: Self::Cfg, s: Self::State, f: f64, s2: Self::State) -> bool {
        rv(f) == sin_r((pi_r() * 2real) * rv(s.1)) && -1real <= rv(f) <= 1real && Phase::<S>::trans(c, s, s.1, s2)
    }
    open spec fn exh(s: Self::State) -> bool { false }
//@fn file=dasp_signal/src/lib.rs in="impl:<S> Signal for Sine<S>" name=next label=Sine::next "rules=R-subst:const PI_2: f64 = core::f64::consts::PI=>let PI_2: f64 = PI_()"
//@entry
        broadcast use float_as_real;
        broadcast use sin_facts;
//@tail
        proof { let s = (old(self).phase.step.sst(), old(self).phase.next); let s2 = (self.phase.step.sst(), self.phase.next);
            assert(s.0 == old(self).phase.step.sst() && s.1 == old(self).phase.next && s2.0 == self.phase.step.sst() && s2.1 == self.phase.next); }
//@end
    fn is_exhausted(&self) -> bool { false }
//@endimpl

// ---------------------------------------------------------------------------------------------
// signal::window::Window (C20): a window of n frames samples the phases i/(n-1)
// ---------------------------------------------------------------------------------------------
use core::marker::PhantomData;
/// contract of the window-function trait (dasp_window::Window, imported as WindowType): a pure function of the phase
pub trait WindowType<S> {
    type Output;
    spec fn wspec(phase: S) -> Self::Output;
    fn window(phase: S) -> (r: Self::Output) ensures r == Self::wspec(phase);
}
/// Frame::from_fn: channel i is from(i) (C03: called once per channel in channel order)
pub trait FrameFromFn: Frame {
    fn from_fn<M>(from: M) -> (r: Self) where M: FnMut(usize) -> Self::Sample
        requires forall|i: usize| call_requires(from, (i,)),
        ensures forall|i: int| 0 <= i < Self::nch() ==> call_ensures(from, (i as usize,), #[trigger] r.ch(i));
}
impl<T: Frame> FrameFromFn for T {
    #[verifier::external_body]
    fn from_fn<M>(from: M) -> (r: Self) where M: FnMut(usize) -> Self::Sample { unimplemented!() }
}
/// R-cast: `len as f64` (exact below 2^53: a precondition of Window::new here)
pub uninterp spec fn usize_f64(n: usize) -> f64;
#[verifier::external_body]
fn usize_as_f64_(n: usize) -> (r: f64) requires n < 9007199254740992 ensures r == usize_f64(n), rv(r) == n as real { n as f64 }

//@struct file=dasp_signal/src/window/mod.rs name=Window
//@impl file=dasp_signal/src/window/mod.rs header="impl<F, W> Window<F, W>"
//@fn file=dasp_signal/src/window/mod.rs in="impl:<F, W> Window<F, W>" name=new ret=r label=Window::new vis=pub "rules=R-subst:crate::rate(len as f64 - 1.0)=>rate(usize_as_f64_(len) - 1.0),R-subst:crate::phase=>phase"
//@spec
        requires 2 <= len < 9007199254740992,
        // the phase starts at 0 and steps by 1/(len - 1)
        ensures rv(r.phase.next) == 0real, rv(r.phase.step.step) * ((len - 1) as real) == 1real,
//@entry
        broadcast use float_as_real;
//@tail
        proof {
            let d = usize_f64(len).sub_spec(1.0f64);
            ax_sub(usize_f64(len), 1.0f64); ax_div(1.0f64, d);
            assert(rv(d) == (len - 1) as real);
            assert(step.step == 1.0f64.div_spec(d));
            assert(rv(1.0f64) == 1real);
            assert(rv(step.step) * rv(d) == 1real);
        }
//@end
//@endimpl

//@impl file=dasp_signal/src/window/mod.rs header="impl<F, W> Iterator for Window<F, W>" as="impl<F, W> Window<F, W>"
//@fn file=dasp_signal/src/window/mod.rs in="impl:<F, W> Iterator for Window<F, W>" name=next ret=r label=Window::next vis=pub "rules=R-subst:Self::Item=>F"
//@spec
        ensures
            r is Some, final(self).phase.step == old(self).phase.step,
            // every channel holds the window function's value AT THE CURRENT PHASE (converted to the frame's format)
            forall|i: int| 0 <= i < F::nch() ==> #[trigger] r.unwrap().ch(i) ==
                conv_spec::<<F::Sample as Sample>::Float, F::Sample>(conv_spec::<f64, <F::Sample as Sample>::Float>(W::wspec(old(self).phase.next))),
            // and the phase advances by one step, wrapped into [0, 1)
            rv(old(self).phase.next) + rv(old(self).phase.step.step) >= 0real ==>
                0real <= rv(final(self).phase.next) < 1real
                && rcong(rv(final(self).phase.next), rv(old(self).phase.next) + rv(old(self).phase.step.step), 1real),
//@closure 0 "|_|"
|i_: usize| -> (s_: F::Sample)
            ensures s_ == conv_spec::<<F::Sample as Sample>::Float, F::Sample>(v_f)
//@end
//@endimpl

/// a window of n >= 2 frames samples the phases i/(n-1): if the phase before frame i is congruent to i * step and the
/// step is 1/(n-1) (Window::new), the phase before frame i+1 is congruent to (i+1) * step (Window::next), i.e. the
/// i-th frame is W(i/(n-1) mod 1) for every i, by induction from phase 0
pub proof fn lemma_window_phases(i: int, step: real, p: real, p2: real)
    requires rcong(p, (i as real) * step, 1real), rcong(p2, p + step, 1real)
    ensures rcong(p2, ((i + 1) as real) * step, 1real)
{
    lemma_phase_accumulates((i as real) * step, p, step, p2);
    assert((i as real) * step + step == ((i + 1) as real) * step) by(nonlinear_arith);
}

// ---------------------------------------------------------------------------------------------
// lemmas (C17) in exact reals
// ---------------------------------------------------------------------------------------------
/// step == frequency / rate (real value of the increment computed by const_hz and Hz::step)
pub proof fn lemma_step_value(hz: f64, rate: f64)
    requires rv(rate) != 0real
    ensures rv(hz.div_spec(rate)) * rv(rate) == rv(hz)
{ ax_div(hz, rate); }

/// saw stays in (-1, 1] for phase in [0, 1)
pub proof fn lemma_saw_range(p: f64)
    requires 0real <= rv(p) < 1real
    ensures rv(saw_f64(p)) == 1real - 2real * rv(p), -1real < rv(saw_f64(p)) <= 1real
{
    broadcast use float_as_real;
    ax_mul(p, -2.0f64); ax_add(p.mul_spec(-2.0f64), 1.0f64);
    assert(rv(-2.0f64) == -2real);
    assert(rv(p.mul_spec(-2.0f64)) == rv(p) * rv(-2.0f64));
    assert(rv(p.mul_spec(-2.0f64).add_spec(1.0f64)) == rv(p.mul_spec(-2.0f64)) + rv(1.0f64));
    assert(rv(p) * (-2real) == -2real * rv(p));
}

/// congruence is preserved by wrapping: the phase after n frames is (sum of steps) mod 1
pub proof fn lemma_phase_accumulates(acc: real, next: real, v: real, next2: real)
    requires rcong(next, acc, 1real), rcong(next2, next + v, 1real)
    ensures rcong(next2, acc + v, 1real)
{
    let k1 = choose|k: int| #[trigger] rmul(k, 1real) == next - acc;
    let k2 = choose|k: int| #[trigger] rmul(k, 1real) == next2 - (next + v);
    assert(rmul(k1 + k2, 1real) == next2 - (acc + v)) by (nonlinear_arith)
        requires rmul(k1, 1real) == next - acc, rmul(k2, 1real) == next2 - (next + v),
            rmul(k1, 1real) == (k1 as real) * 1real, rmul(k2, 1real) == (k2 as real) * 1real, rmul(k1 + k2, 1real) == ((k1 + k2) as real) * 1real;
}
} // verus!
fn main() {}
