// Unit envadapt (C19 / C11, adaptor clauses): dasp_signal::envelope::DetectEnvelope and dasp_signal::rms::Rms feed
// EACH source frame, exactly once and in order, to the detector / running RMS they own and yield what it returns.
// The detector and the RMS window are contract-only stand-ins (abstract state machines): their own behaviour is
// decided on the real code by the Kani crates envelope / peak (C19, C11).
use vstd::prelude::*;
use vstd::std_specs::ops::*;
use vstd::std_specs::cmp::*;
verus! {

//@include _shared/std_specs.rs
//@include _shared/signal_prelude.rs

use core::marker::PhantomData;

// ---------------------------------------------------------------------------------------------
// stand-ins (assumed contracts: abstract state machines)
// ---------------------------------------------------------------------------------------------
pub mod envelope {
    use super::*;
    pub trait Detect<F> { type Output: Frame; }
    pub struct Detector<F, D> { pub f: PhantomData<F>, pub d: PhantomData<D> }
    /// abstract state of a detector (gains, previous envelope, detector window)
    pub struct DSt<F, D> { pub f: PhantomData<F>, pub d: PhantomData<D> }
    pub uninterp spec fn dst<F, D>(x: &Detector<F, D>) -> DSt<F, D>;
    pub uninterp spec fn dnext<F, D: Detect<F>>(s: DSt<F, D>, frame: F) -> (D::Output, DSt<F, D>);
    pub uninterp spec fn dset_attack<F, D>(s: DSt<F, D>, frames: f32) -> DSt<F, D>;
    pub uninterp spec fn dset_release<F, D>(s: DSt<F, D>, frames: f32) -> DSt<F, D>;
    impl<F, D: Detect<F>> Detector<F, D> {
        #[verifier::external_body]
        pub fn next(&mut self, frame: F) -> (r: D::Output)
            ensures (r, dst(&*final(self))) == dnext::<F, D>(dst(&*old(self)), frame)
        { unimplemented!() }
        #[verifier::external_body]
        pub fn set_attack_frames(&mut self, frames: f32) ensures dst(&*final(self)) == dset_attack(dst(&*old(self)), frames) { unimplemented!() }
        #[verifier::external_body]
        pub fn set_release_frames(&mut self, frames: f32) ensures dst(&*final(self)) == dset_release(dst(&*old(self)), frames) { unimplemented!() }
    }
}

// ---------------------------------------------------------------------------------------------
// DetectEnvelope
// ---------------------------------------------------------------------------------------------
//@struct file=dasp_signal/src/envelope.rs name=DetectEnvelope

//@impl file=dasp_signal/src/envelope.rs header="impl<S, D> DetectEnvelope<S, D>"
//@fn file=dasp_signal/src/envelope.rs in="impl:<S, D> DetectEnvelope<S, D>" name=set_attack_frames label=DetectEnvelope::set_attack_frames
//@spec
        // changing the attack time touches the detector only (subsequent frames), never the source position
        ensures final(self).signal == old(self).signal,
            envelope::dst(&final(self).detector) == envelope::dset_attack(envelope::dst(&old(self).detector), frames),
//@end
//@fn file=dasp_signal/src/envelope.rs in="impl:<S, D> DetectEnvelope<S, D>" name=set_release_frames label=DetectEnvelope::set_release_frames
//@spec
        ensures final(self).signal == old(self).signal,
            envelope::dst(&final(self).detector) == envelope::dset_release(envelope::dst(&old(self).detector), frames),
//@end
//@fn file=dasp_signal/src/envelope.rs in="impl:<S, D> DetectEnvelope<S, D>" name=into_parts ret=r label=DetectEnvelope::into_parts
//@spec
        ensures r.0 == self.signal, r.1 == self.detector,
//@end
//@endimpl

//@impl file=dasp_signal/src/envelope.rs header="impl<S, D> Signal for DetectEnvelope<S, D>"
//@item file=dasp_signal/src/envelope.rs in="impl:<S, D> Signal for DetectEnvelope<S, D>" kind=type name=Frame
    /// (state of the source, state of the detector)
    type State = (S::State, envelope::DSt<S::Frame, D>);
    type Cfg = S::Cfg;
    open spec fn st(&self) -> Self::State { (self.signal.st(), envelope::dst(&self.detector)) }
    open spec fn cfg(&self) -> Self::Cfg { self.signal.cfg() }
    open spec fn inv(&self) -> bool { self.signal.inv() }
    /// exactly one source frame x per output; the output is what the detector returns for x
    open spec fn trans(c: Self::Cfg, s: Self::State, f: Self::Frame, s2: Self::State) -> bool {
        exists|x: S::Frame| #[trigger] S::trans(c, s.0, x, s2.0) && (f, s2.1) == envelope::dnext::<S::Frame, D>(s.1, x)
    }
    open spec fn exh(s: Self::State) -> bool { S::exh(s.0) }
//@fn file=dasp_signal/src/envelope.rs in="impl:<S, D> Signal for DetectEnvelope<S, D>" name=next label=DetectEnvelope::next
//@tail
        proof { let s = (old(self).signal.st(), envelope::dst(&old(self).detector)); let s2 = (self.signal.st(), envelope::dst(&self.detector));
            assert(s.0 == old(self).signal.st() && s.1 == envelope::dst(&old(self).detector) && s2.0 == self.signal.st() && s2.1 == envelope::dst(&self.detector)); }
//@end
//@fn file=dasp_signal/src/envelope.rs in="impl:<S, D> Signal for DetectEnvelope<S, D>" name=is_exhausted label=DetectEnvelope::is_exhausted
//@tail
        proof { let s = (self.signal.st(), envelope::dst(&self.detector)); assert(s.0 == self.signal.st()); }
//@end
//@endimpl

/// constructor: built from the arguments, nothing is pulled
pub trait SignalEnvelopeCtor: Signal + Sized {
//@fn file=dasp_signal/src/envelope.rs in="trait:SignalEnvelope" name=detect_envelope ret=r label=Signal::detect_envelope
//@spec
        ensures r.signal == self, r.detector == detector,
//@end
}

} // verus!
fn main() {}
