// ---------------------------------------------------------------------------------------------
// T4 float_as_real: f64 arithmetic treated as exact real arithmetic ("machine arithmetic treated as
// mathematical").  Every unit that includes this file proves its property over idealised reals; no
// clause about rounding is ever decided this way.  A must-fail probe guards against inconsistency.
// ---------------------------------------------------------------------------------------------
pub uninterp spec fn rv(x: f64) -> real;

pub broadcast axiom fn ax_add_obeys() ensures #[trigger] <f64 as AddSpec>::obeys_add_spec();
pub broadcast axiom fn ax_add_req(a: f64, b: f64) ensures #[trigger] a.add_req(b);
pub broadcast axiom fn ax_add(a: f64, b: f64) ensures rv(#[trigger] a.add_spec(b)) == rv(a) + rv(b);
pub broadcast axiom fn ax_sub_obeys() ensures #[trigger] <f64 as SubSpec>::obeys_sub_spec();
pub broadcast axiom fn ax_sub_req(a: f64, b: f64) ensures #[trigger] a.sub_req(b);
pub broadcast axiom fn ax_sub(a: f64, b: f64) ensures rv(#[trigger] a.sub_spec(b)) == rv(a) - rv(b);
pub broadcast axiom fn ax_mul_obeys() ensures #[trigger] <f64 as MulSpec>::obeys_mul_spec();
pub broadcast axiom fn ax_mul_req(a: f64, b: f64) ensures #[trigger] a.mul_req(b);
pub broadcast axiom fn ax_mul(a: f64, b: f64) ensures rv(#[trigger] a.mul_spec(b)) == rv(a) * rv(b);
pub broadcast axiom fn ax_div_obeys() ensures #[trigger] <f64 as DivSpec>::obeys_div_spec();
pub broadcast axiom fn ax_div_req(a: f64, b: f64) ensures #[trigger] a.div_req(b);
pub broadcast axiom fn ax_div(a: f64, b: f64) ensures rv(b) != 0real ==> rv(#[trigger] a.div_spec(b)) * rv(b) == rv(a);
pub broadcast axiom fn ax_neg_obeys() ensures #[trigger] <f64 as NegSpec>::obeys_neg_spec();
pub broadcast axiom fn ax_neg_req(a: f64) ensures #[trigger] a.neg_req();
pub broadcast axiom fn ax_neg(a: f64) ensures rv(#[trigger] a.neg_spec()) == -rv(a);
pub broadcast axiom fn ax_cmp_obeys() ensures #[trigger] <f64 as PartialOrdSpec>::obeys_partial_cmp_spec();
pub broadcast axiom fn ax_cmp(a: f64, b: f64)
    ensures #[trigger] a.partial_cmp_spec(&b) == (
        if rv(a) < rv(b) { Some(core::cmp::Ordering::Less) }
        else if rv(a) == rv(b) { Some(core::cmp::Ordering::Equal) }
        else { Some(core::cmp::Ordering::Greater) });
#[verifier::allow(broadcast_without_trigger)]
pub broadcast axiom fn ax_lits()
    ensures rv(0.0f64) == 0real, rv(1.0f64) == 1real, rv(2.0f64) == 2real, rv(0.5f64) == 1real / 2real, rv(-1.0f64) == -1real, rv(-2.0f64) == -2real;

pub broadcast group float_as_real {
    ax_add_obeys, ax_add_req, ax_add, ax_sub_obeys, ax_sub_req, ax_sub, ax_mul_obeys, ax_mul_req, ax_mul,
    ax_div_obeys, ax_div_req, ax_div, ax_neg_obeys, ax_neg_req, ax_neg, ax_cmp_obeys, ax_cmp, ax_lits
}
