// ---------------------------------------------------------------------------------------------
// Bounded
// ---------------------------------------------------------------------------------------------

//@struct file=dasp_ring_buffer/src/lib.rs name=Bounded
//@struct file=dasp_ring_buffer/src/lib.rs name=DrainBounded

//@impl file=dasp_ring_buffer/src/lib.rs header="impl<S> Bounded<S>"
    pub open spec fn cap(&self) -> int { self.data.view().len() as int }
    pub open spec fn wf(&self) -> bool {
        self.start < self.cap() && self.len <= self.cap() && self.cap() <= isize::MAX
    }
    /// abstract view: the live elements oldest-first
    pub open spec fn seq(&self) -> Seq<S::Element> {
        Seq::new(self.len as nat, |i: int| self.data.view()[widx(self.start as int, i, self.cap())])
    }

//@fn file=dasp_ring_buffer/src/lib.rs in="impl:<S> Bounded<S>" name=from_full ret=r label=Bounded::from_full
//@spec
        ensures r.wf(), r.seq() =~= data.view(), r.data == data,
//@entry
        broadcast use lemma_widx;
//@end

//@fn file=dasp_ring_buffer/src/lib.rs in="impl:<S> Bounded<S>" name=max_len ret=r label=Bounded::max_len
//@spec
        ensures r == self.cap(),
//@end

//@fn file=dasp_ring_buffer/src/lib.rs in="impl:<S> Bounded<S>" name=len ret=r label=Bounded::len
//@spec
        ensures r == self.seq().len(),
//@end

//@fn file=dasp_ring_buffer/src/lib.rs in="impl:<S> Bounded<S>" name=is_empty ret=r label=Bounded::is_empty
//@spec
        ensures r == (self.seq().len() == 0),
//@end

//@fn file=dasp_ring_buffer/src/lib.rs in="impl:<S> Bounded<S>" name=is_full ret=r label=Bounded::is_full
//@spec
        ensures r == (self.seq().len() == self.cap()),
//@end

//@fn file=dasp_ring_buffer/src/lib.rs in="impl:<S> Bounded<S>" name=slices ret=r label=Bounded::slices
//@spec
        requires self.wf(),
        ensures r.0@ + r.1@ =~= self.seq(),
//@entry
        broadcast use lemma_widx;
//@end

//@fn file=dasp_ring_buffer/src/lib.rs in="impl:<S> Bounded<S>" name=slices_mut ret=r label=Bounded::slices_mut
//@spec
        requires old(self).wf(),
        ensures r.0@ + r.1@ =~= old(self).seq(),
            final(self).start == old(self).start, final(self).len == old(self).len,
//@entry
        broadcast use lemma_widx;
//@end

//@fn file=dasp_ring_buffer/src/lib.rs in="impl:<S> Bounded<S>" name=get ret=r label=Bounded::get
//@spec
        requires self.wf(),
        ensures
            r.is_some() == (index < self.seq().len()),
            r.is_some() ==> *r.unwrap() == self.seq()[index as int],
//@entry
        broadcast use lemma_widx;
        proof { if index < self.len { lemma_widx(self.start as int, index as int, self.cap()); } }
//@end

//@fn file=dasp_ring_buffer/src/lib.rs in="impl:<S> Bounded<S>" name=get_mut ret=r label=Bounded::get_mut
//@spec
        requires old(self).wf(),
        ensures
            r.is_some() == (index < old(self).seq().len()),
            final(self).wf(),
            r.is_some() ==> *r.unwrap() == old(self).seq()[index as int]
                && final(self).seq() =~= old(self).seq().update(index as int, *final(r.unwrap())),
            r.is_none() ==> final(self).seq() =~= old(self).seq(),
//@entry
        broadcast use lemma_widx;
        proof { if index < self.len { lemma_widx(self.start as int, index as int, self.cap()); } }
//@end

//@fn file=dasp_ring_buffer/src/lib.rs in="impl:<S> Bounded<S>" name=push ret=r label=Bounded::push
//@spec
        requires old(self).wf(),
        ensures
            final(self).wf(),
            final(self).cap() == old(self).cap(),
            old(self).seq().len() < old(self).cap() ==>
                r is None && final(self).seq() =~= old(self).seq().push(elem),
            old(self).seq().len() == old(self).cap() ==>
                r == Some(old(self).seq()[0]) && final(self).seq() =~= old(self).seq().drop_first().push(elem),
//@entry
        broadcast use lemma_widx;
        proof { if self.len < self.cap() { lemma_widx(self.start as int, self.len as int, self.cap()); } }
//@end

//@fn file=dasp_ring_buffer/src/lib.rs in="impl:<S> Bounded<S>" name=pop ret=r label=Bounded::pop
//@spec
        requires old(self).wf(),
        ensures
            final(self).wf(),
            final(self).cap() == old(self).cap(),
            old(self).seq().len() == 0 ==> r is None && final(self).seq() =~= old(self).seq(),
            old(self).seq().len() > 0 ==>
                r == Some(old(self).seq()[0]) && final(self).seq() =~= old(self).seq().drop_first(),
//@entry
        broadcast use lemma_widx;
//@end

//@fn file=dasp_ring_buffer/src/lib.rs in="impl:<S> Bounded<S>" name=drain ret=r label=Bounded::drain
//@spec
        ensures *r.bounded == *old(self), *final(r.bounded) == *final(self),
//@end

//@fn file=dasp_ring_buffer/src/lib.rs in="impl:<S> Bounded<S>" name=from_raw_parts ret=r rules=R-assert label=Bounded::from_raw_parts
//@spec
        ensures r.wf(), r.start == start, r.len == len, r.data == data,
//@entry
        broadcast use ax_slice_len;
//@end

//@endimpl

//@impl file=dasp_ring_buffer/src/lib.rs header="impl<S> From<S> for Bounded<S>" as="impl<S> Bounded<S>"
//@fn file=dasp_ring_buffer/src/lib.rs in="impl:<S> From<S> for Bounded<S>" name=from ret=r label=Bounded::from
//@spec
        ensures r.wf(), r.seq() =~= Seq::<S::Element>::empty(), r.data == data,
//@end
//@endimpl

//@impl file=dasp_ring_buffer/src/lib.rs header="impl<S> Index<usize> for Bounded<S>" as="impl<S> Bounded<S>"
//@fn file=dasp_ring_buffer/src/lib.rs in="impl:<S> Index<usize> for Bounded<S>" name=index ret=r label=Bounded::index rules=R-subst:Self::Output=>S::Element
//@spec
        requires self.wf(), index < self.seq().len(),   // out of range: documented panic ("index out of range")
        ensures *r == self.seq()[index as int],
//@end
//@endimpl

//@impl file=dasp_ring_buffer/src/lib.rs header="impl<S> IndexMut<usize> for Bounded<S>" as="impl<S> Bounded<S>"
//@fn file=dasp_ring_buffer/src/lib.rs in="impl:<S> IndexMut<usize> for Bounded<S>" name=index_mut ret=r label=Bounded::index_mut rules=R-subst:Self::Output=>S::Element
//@spec
        requires old(self).wf(), index < old(self).seq().len(),
        ensures *r == old(self).seq()[index as int],
            final(self).wf(),
            final(self).seq() =~= old(self).seq().update(index as int, *final(r)),
//@end
//@endimpl

//@impl file=dasp_ring_buffer/src/lib.rs header="impl<'a, S> Iterator for DrainBounded<'a, S>" as="impl<'a, S> DrainBounded<'a, S>"
//@fn file=dasp_ring_buffer/src/lib.rs in="impl:<'a, S> Iterator for DrainBounded<'a, S>" name=next ret=r label=DrainBounded::next rules=R-subst:Self::Item=>S::Element
//@spec
        requires old(self).bounded.wf(),
        ensures
            final(self).bounded.wf(),
            final(self).bounded.cap() == old(self).bounded.cap(),
            old(self).bounded.seq().len() == 0 ==> r is None && final(self).bounded.seq() =~= old(self).bounded.seq(),
            old(self).bounded.seq().len() > 0 ==>
                r == Some(old(self).bounded.seq()[0]) && final(self).bounded.seq() =~= old(self).bounded.seq().drop_first(),
//@end
//@fn file=dasp_ring_buffer/src/lib.rs in="impl:<'a, S> Iterator for DrainBounded<'a, S>" name=size_hint ret=r label=DrainBounded::size_hint
//@spec
        ensures r.0 == old(self.bounded).seq().len(), r.1 == Some(old(self.bounded).seq().len() as usize),
//@end
//@endimpl

//@impl file=dasp_ring_buffer/src/lib.rs header="impl<'a, S> ExactSizeIterator for DrainBounded<'a, S>" as="impl<'a, S> DrainBounded<'a, S>"
//@fn file=dasp_ring_buffer/src/lib.rs in="impl:<'a, S> ExactSizeIterator for DrainBounded<'a, S>" name=len ret=r label=DrainBounded::len
//@spec
        ensures r == old(self.bounded).seq().len(),
//@end
//@endimpl

