// R-assert: `assert!(c)` -> `assert_or_panic_(c)`: returns only if c holds (panics otherwise).
#[verifier::external_body]
fn assert_or_panic_(c: bool)
    ensures c
{ assert!(c) }
