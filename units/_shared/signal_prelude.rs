// ---------------------------------------------------------------------------------------------
// trusted prelude: contracts of the traits this unit USES but does not verify
// (Frame/Sample operations are discharged on the real code by the Kani unit sample_frame, C03)
// ---------------------------------------------------------------------------------------------

pub trait Sample: Copy + PartialOrd {
    type Signed: Copy + PartialOrd + core::ops::Neg<Output = Self::Signed>;
    type Float: Copy;
}

/// sample format conversion (dasp_sample::Sample::to_sample): uninterpreted here, decided by C01/C02
pub uninterp spec fn conv_spec<A, B>(a: A) -> B;
pub trait SampleConv: Sized {
    fn to_sample<S>(self) -> (r: S) ensures r == conv_spec::<Self, S>(self);
}
impl<T> SampleConv for T {
    #[verifier::external_body]
    fn to_sample<S>(self) -> (r: S) { unimplemented!() }
}

pub trait Frame: Copy {
    type Sample: Sample;
    type NumChannels;
    type Channels: Iterator<Item = Self::Sample>;
    /// number of channels (>= 1: dasp_frame implements Frame for N = 1..=32 and bare samples)
    spec fn nch() -> nat;
    /// channel i
    spec fn ch(self, i: int) -> Self::Sample;
    spec fn equilibrium_spec() -> Self;
    proof fn nch_positive() ensures Self::nch() >= 1;
    /// R-assocconst: `F::EQUILIBRIUM` is read through this nullary function
    #[allow(non_snake_case)]
    fn EQUILIBRIUM_() -> (r: Self) ensures r == Self::equilibrium_spec();
}

pub uninterp spec fn add_amp_spec<A, B>(a: A, b: B) -> A;
pub uninterp spec fn mul_amp_spec<A, B>(a: A, b: B) -> A;
pub uninterp spec fn scale_amp_spec<A, G>(a: A, g: G) -> A;
pub uninterp spec fn offset_amp_spec<A, O>(a: A, o: O) -> A;

/// state of the iterator returned by Frame::channels(): the frame and the next channel index
pub uninterp spec fn channels_ist<F: Frame>(f: F, i: nat) -> <F::Channels as Iterator>::ISt;

pub trait FrameOps: Frame {
    fn add_amp<F>(self, other: F) -> (r: Self)
        where F: Frame<Sample = <Self::Sample as Sample>::Signed, NumChannels = Self::NumChannels>
        ensures r == add_amp_spec(self, other);
    fn mul_amp<F>(self, other: F) -> (r: Self)
        where F: Frame<Sample = <Self::Sample as Sample>::Float, NumChannels = Self::NumChannels>
        ensures r == mul_amp_spec(self, other);
    fn scale_amp(self, amp: <Self::Sample as Sample>::Float) -> (r: Self)
        ensures r == scale_amp_spec(self, amp);
    fn offset_amp(self, offset: <Self::Sample as Sample>::Signed) -> (r: Self)
        ensures r == offset_amp_spec(self, offset);
    /// map applies the closure once per channel (in channel order; C03)
    fn map<F, M>(self, map: M) -> (r: F)
        where F: Frame<NumChannels = Self::NumChannels>, M: FnMut(Self::Sample) -> F::Sample
        requires forall|x: Self::Sample| call_requires(map, (x,)),
        ensures forall|i: int| 0 <= i < Self::nch() ==> call_ensures(map, (self.ch(i),), #[trigger] r.ch(i));
    /// channels(): yields ch(0), ch(1), .. ch(N-1) then None
    fn channels(self) -> (r: Self::Channels)
        ensures r.ist() == channels_ist::<Self>(self, 0);
    /// from_samples: pulls samples until N were obtained or the iterator returned None
    fn from_samples<I>(samples: &mut I) -> (r: Option<Self>)
        where I: Iterator<Item = Self::Sample>
        ensures
            (*final(samples)).ist() == take_n::<I>((*old(samples)).ist(), Self::nch()).1,
            r.is_some() == (take_n::<I>((*old(samples)).ist(), Self::nch()).0.len() == Self::nch()),
            r.is_some() ==> (forall|i: int| 0 <= i < Self::nch() ==>
                #[trigger] r.unwrap().ch(i) == take_n::<I>((*old(samples)).ist(), Self::nch()).0[i]);
}
impl<T: Frame> FrameOps for T {
    #[verifier::external_body]
    fn add_amp<F>(self, other: F) -> (r: Self)
        where F: Frame<Sample = <Self::Sample as Sample>::Signed, NumChannels = Self::NumChannels>
    { unimplemented!() }
    #[verifier::external_body]
    fn mul_amp<F>(self, other: F) -> (r: Self)
        where F: Frame<Sample = <Self::Sample as Sample>::Float, NumChannels = Self::NumChannels>
    { unimplemented!() }
    #[verifier::external_body]
    fn scale_amp(self, amp: <Self::Sample as Sample>::Float) -> (r: Self) { unimplemented!() }
    #[verifier::external_body]
    fn offset_amp(self, offset: <Self::Sample as Sample>::Signed) -> (r: Self) { unimplemented!() }
    #[verifier::external_body]
    fn map<F, M>(self, map: M) -> (r: F)
        where F: Frame<NumChannels = Self::NumChannels>, M: FnMut(Self::Sample) -> F::Sample
    { unimplemented!() }
    #[verifier::external_body]
    fn channels(self) -> (r: Self::Channels) { unimplemented!() }
    #[verifier::external_body]
    fn from_samples<I>(samples: &mut I) -> (r: Option<Self>)
        where I: Iterator<Item = Self::Sample>
    { unimplemented!() }
}

/// the channel iterator behaves as specified (assumed contract on dasp_frame's `Channels`, C03)
pub broadcast axiom fn ax_channels_next<F: Frame>(f: F, i: nat)
    ensures #[trigger] <F::Channels as Iterator>::inext(channels_ist::<F>(f, i)) ==
        (if i < F::nch() { (Some(f.ch(i as int)), channels_ist::<F>(f, i + 1)) }
         else { (None::<F::Sample>, channels_ist::<F>(f, i)) });

// Local stand-in for core::iter::Iterator: a deterministic state machine.  Nothing is assumed
// about behaviour after `None` (no fused-iterator assumption).
pub trait Iterator {
    type Item;
    type ISt;
    spec fn ist(&self) -> Self::ISt;
    spec fn inext(s: Self::ISt) -> (Option<Self::Item>, Self::ISt);
    fn next(&mut self) -> (r: Option<Self::Item>)
        ensures (r, (*final(self)).ist()) == Self::inext((*old(self)).ist());
}
pub trait IntoIterator {
    type Item;
    type IntoIter: Iterator<Item = Self::Item>;
    spec fn into_ist(self) -> <Self::IntoIter as Iterator>::ISt;
    fn into_iter(self) -> (r: Self::IntoIter) ensures r.ist() == self.into_ist();
}

/// pull up to n items: (items obtained, iterator state afterwards); stops at the first None
pub open spec fn take_n<I: Iterator>(s: I::ISt, n: nat) -> (Seq<I::Item>, I::ISt)
    decreases n
{
    if n == 0 { (Seq::empty(), s) } else {
        match I::inext(s).0 {
            None => (Seq::empty(), I::inext(s).1),
            Some(x) => {
                let rest = take_n::<I>(I::inext(s).1, (n - 1) as nat);
                (seq![x] + rest.0, rest.1)
            }
        }
    }
}

// ---------------------------------------------------------------------------------------------
// THE CONTRACT: Signal as a state machine
// ---------------------------------------------------------------------------------------------

pub trait Signal {
    type Frame: Frame;
    /// abstract state: everything next() may change
    type State;
    /// configuration: everything next() never changes (gains, thresholds, user closures)
    type Cfg;
    spec fn st(&self) -> Self::State;
    spec fn cfg(&self) -> Self::Cfg;
    /// side conditions of the value itself (closures callable, ...)
    spec fn inv(&self) -> bool;
    /// one `next()`: under configuration c, from state s, yields f and ends in state s2
    spec fn trans(c: Self::Cfg, s: Self::State, f: Self::Frame, s2: Self::State) -> bool;
    /// exhausted in state s
    spec fn exh(s: Self::State) -> bool;

    fn next(&mut self) -> (f: Self::Frame)
        requires (*old(self)).inv(),
        ensures (*final(self)).inv(), (*final(self)).cfg() == (*old(self)).cfg(),
            Self::trans((*old(self)).cfg(), (*old(self)).st(), f, (*final(self)).st());

    fn is_exhausted(&self) -> (b: bool)
        ensures b == Self::exh(self.st());
}

