
// ---------------------------------------------------------------------------------------------
// arithmetic lemmas (proved, not assumed)
// ---------------------------------------------------------------------------------------------

/// wrapped index: position of logical element i in a ring of n slots starting at `start`
pub open spec fn widx(start: int, i: int, n: int) -> int { (start + i) % n }

pub proof fn lemma_mod_wrap(x: int, n: int)
    requires 0 <= x < 2 * n, n > 0
    ensures x % n == (if x < n { x } else { x - n })
{
    if x < n { lemma_small_mod(x as nat, n as nat); }
    else {
        lemma_mod_sub_multiples_vanish(x, n);
        lemma_small_mod((x - n) as nat, n as nat);
    }
}

pub broadcast proof fn lemma_widx(start: int, i: int, n: int)
    requires 0 <= start < n, 0 <= i < n
    ensures #[trigger] widx(start, i, n) == (if start + i < n { start + i } else { start + i - n })
{
    lemma_mod_wrap(start + i, n);
}

/// (first + index) % n  ==  widx(first, index % n, n)
pub proof fn lemma_widx_any(first: int, index: int, n: int)
    requires 0 <= first < n, 0 <= index
    ensures (first + index) % n == widx(first, index % n, n), 0 <= index % n < n
{
    lemma_add_mod_noop_right(first, index, n);
    lemma_mod_bound(index, n);
}

// T5 (size assumption A-len): a slice of a non-zero-sized element type has at most isize::MAX
// elements (allocation limit).  Stated as an axiom; used only for `start + len` / `first + 1`.
pub broadcast axiom fn ax_slice_len<T>(s: &[T])
    ensures #[trigger] s@.len() <= isize::MAX;

// ---------------------------------------------------------------------------------------------
// trusted prelude
// ---------------------------------------------------------------------------------------------


// R-unchecked: `x.get_unchecked(i)` is rewritten to `get_unchecked_(x, i)`; the bound becomes a
// proof obligation at every call site ("never reads or writes outside the backing slice").
#[verifier::external_body]
fn get_unchecked_<T>(s: &[T], i: usize) -> (r: &T)
    requires i < s@.len()
    ensures *r == s@[i as int]
{ unsafe { s.get_unchecked(i) } }

#[verifier::external_body]
fn get_unchecked_mut_<T>(s: &mut [T], i: usize) -> (r: &mut T)
    requires i < old(s)@.len()
    ensures *r == (*old(s))@[i as int], (*final(s))@ == (*old(s))@.update(i as int, *final(r))
{ unsafe { s.get_unchecked_mut(i) } }

// R-ptr: ptr::write / ptr::read through a reference to a Copy element (no drop glue): plain
// store / load.
#[verifier::external_body]
fn ptr_write_<T>(dest: &mut T, v: T)
    ensures *final(dest) == v
{ unsafe { core::ptr::write(dest, v) } }

#[verifier::external_body]
fn ptr_read_<T: Copy>(src: &mut T) -> (r: T)
    ensures r == *old(src), *final(src) == *old(src)
{ unsafe { core::ptr::read(src) } }

// R-assert: `assert!(c)` -> `assert_or_panic_(c)`: returns only if c holds (panics otherwise).
#[verifier::external_body]
fn assert_or_panic_(c: bool)
    ensures c
{ assert!(c) }

// Trait contracts (the repository's traits carry no specification; `view` is the abstract content).
pub trait Slice {
    type Element;
    spec fn view(&self) -> Seq<Self::Element>;
    fn slice(&self) -> (r: &[Self::Element])
        ensures r@ == self.view();
}

pub trait SliceMut: Slice {
    fn slice_mut(&mut self) -> (r: &mut [Self::Element])
        ensures r@ == old(self).view(), final(self).view() == (*final(r))@;
}

