// f64 as a (mono) frame: trusted instance of the Frame contract for the control signal (C03 mono harnesses)
impl Sample for f64 { type Signed = f64; type Float = f64; }
pub struct N1 {}
pub struct F64Channels { pub f: f64, pub i: usize }
impl Iterator for F64Channels {
    type Item = f64;
    type ISt = (f64, nat);
    open spec fn ist(&self) -> Self::ISt { (self.f, self.i as nat) }
    open spec fn inext(s: Self::ISt) -> (Option<f64>, Self::ISt) { if s.1 == 0 { (Some(s.0), (s.0, 1)) } else { (None, s) } }
    #[verifier::external_body]
    fn next(&mut self) -> (r: Option<f64>) { unimplemented!() }
}
impl Frame for f64 {
    type Sample = f64;
    type NumChannels = N1;
    type Channels = F64Channels;
    open spec fn nch() -> nat { 1 }
    open spec fn ch(self, i: int) -> f64 { self }
    open spec fn equilibrium_spec() -> f64 { 0.0f64 }
    proof fn nch_positive() {}
    #[allow(non_snake_case)]
    fn EQUILIBRIUM_() -> (r: f64) { 0.0 }
}

