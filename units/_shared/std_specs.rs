// T3: assumed specifications of std items used by the extracted code
pub assume_specification<T> [core::mem::replace::<T>] (dest: &mut T, src: T) -> (r: T)
    ensures r == *old(dest), *final(dest) == src;
