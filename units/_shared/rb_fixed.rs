// ---------------------------------------------------------------------------------------------
// Fixed
// ---------------------------------------------------------------------------------------------

//@struct file=dasp_ring_buffer/src/lib.rs name=Fixed

//@impl file=dasp_ring_buffer/src/lib.rs header="impl<S> Fixed<S>"
    pub open spec fn n(&self) -> int { self.data.view().len() as int }
    /// representation invariant (N >= 1 follows from first < N)
    pub open spec fn wf(&self) -> bool {
        self.first < self.n() <= isize::MAX
    }
    /// abstract view: the N elements oldest-first
    pub open spec fn seq(&self) -> Seq<S::Element> {
        Seq::new(self.n() as nat, |i: int| self.data.view()[widx(self.first as int, i, self.n())])
    }

//@fn file=dasp_ring_buffer/src/lib.rs in="impl:<S> Fixed<S>" name=len ret=r label=Fixed::len
//@spec
        ensures r == self.n(),
//@end

//@fn file=dasp_ring_buffer/src/lib.rs in="impl:<S> Fixed<S>" name=push ret=r label=Fixed::push
//@spec
        requires old(self).wf(),
        ensures
            final(self).wf(),
            final(self).n() == old(self).n(),
            r == old(self).seq()[0],
            final(self).seq() =~= old(self).seq().drop_first().push(item),
//@entry
        broadcast use lemma_widx;
//@end

//@fn file=dasp_ring_buffer/src/lib.rs in="impl:<S> Fixed<S>" name=get ret=r label=Fixed::get
//@spec
        requires self.wf(),
        ensures *r == self.seq()[(index as int) % self.n()],
//@entry
        proof { lemma_widx_any(self.first as int, index as int, self.n()); }
//@end

//@fn file=dasp_ring_buffer/src/lib.rs in="impl:<S> Fixed<S>" name=get_mut ret=r label=Fixed::get_mut
//@spec
        requires old(self).wf(),
        ensures
            *r == old(self).seq()[(index as int) % old(self).n()],
            final(self).wf(),
            final(self).first == old(self).first,
            final(self).seq() =~= old(self).seq().update((index as int) % old(self).n(), *final(r)),
//@entry
        broadcast use lemma_widx;
        proof { lemma_widx_any(self.first as int, index as int, self.n()); }
//@end

//@fn file=dasp_ring_buffer/src/lib.rs in="impl:<S> Fixed<S>" name=set_first label=Fixed::set_first
//@spec
        requires old(self).wf(),
        ensures
            final(self).wf(),
            final(self).data == old(self).data,
            final(self).first == (index as int) % old(self).n(),
//@entry
        proof { lemma_mod_bound(index as int, self.n()); }
//@end

//@fn file=dasp_ring_buffer/src/lib.rs in="impl:<S> Fixed<S>" name=slices ret=r label=Fixed::slices
//@spec
        requires self.wf(),
        ensures r.0@ + r.1@ =~= self.seq(),
            r.0@.len() == self.n() - self.first,
//@entry
        broadcast use lemma_widx;
//@end

//@fn file=dasp_ring_buffer/src/lib.rs in="impl:<S> Fixed<S>" name=slices_mut ret=r label=Fixed::slices_mut
//@spec
        requires old(self).wf(),
        ensures r.0@ + r.1@ =~= old(self).seq(),
            r.0@.len() == old(self).n() - old(self).first,
            final(self).first == old(self).first,
//@entry
        broadcast use lemma_widx;
//@end

//@fn file=dasp_ring_buffer/src/lib.rs in="impl:<S> Fixed<S>" name=from_raw_parts ret=r rules=R-assert label=Fixed::from_raw_parts
//@spec
        ensures r.wf(), r.first == first, r.data == data,
//@entry
        broadcast use ax_slice_len;
//@end

//@fn file=dasp_ring_buffer/src/lib.rs in="impl:<S> Fixed<S>" name=into_raw_parts ret=r label=Fixed::into_raw_parts
//@spec
        ensures r.0 == self.first, r.1 == self.data,
//@end

//@endimpl

// `impl From<S> for Fixed<S>` / `Index` / `IndexMut`: std traits cannot carry a contract in
// Verus, so their method bodies are extracted as inherent methods (R-inherent).
//@impl file=dasp_ring_buffer/src/lib.rs header="impl<S> From<S> for Fixed<S>" as="impl<S> Fixed<S>"
//@fn file=dasp_ring_buffer/src/lib.rs in="impl:<S> From<S> for Fixed<S>" name=from ret=r label=Fixed::from
//@spec
        ensures r.wf(), r.first == 0, r.data == data, r.seq() =~= data.view(),
//@entry
        broadcast use lemma_widx;
//@end
//@endimpl

//@impl file=dasp_ring_buffer/src/lib.rs header="impl<S> Index<usize> for Fixed<S>" as="impl<S> Fixed<S>"
//@fn file=dasp_ring_buffer/src/lib.rs in="impl:<S> Index<usize> for Fixed<S>" name=index ret=r label=Fixed::index rules=R-subst:Self::Output=>S::Element
//@spec
        requires self.wf(),
        ensures *r == self.seq()[(index as int) % self.n()],
//@end
//@endimpl

//@impl file=dasp_ring_buffer/src/lib.rs header="impl<S> IndexMut<usize> for Fixed<S>" as="impl<S> Fixed<S>"
//@fn file=dasp_ring_buffer/src/lib.rs in="impl:<S> IndexMut<usize> for Fixed<S>" name=index_mut ret=r label=Fixed::index_mut rules=R-subst:Self::Output=>S::Element
//@spec
        requires old(self).wf(),
        ensures
            *r == old(self).seq()[(index as int) % old(self).n()],
            final(self).wf(),
            final(self).seq() =~= old(self).seq().update((index as int) % old(self).n(), *final(r)),
//@end
//@endimpl

