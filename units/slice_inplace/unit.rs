// Unit slice_inplace (C10, in-place clause): the two-slice in-place operations of dasp_slice equal the element-wise frame
// operation for EVERY length (the Kani part of C10 bounds the length; this unit does not).  map_in_place / equilibrium
// iterate `for f in a` over `&mut [F]`, which is outside the Verus subset: they stay with the bounded Kani harnesses.
use vstd::prelude::*;
use vstd::std_specs::ops::*;
use vstd::std_specs::cmp::*;
verus! {

//@include _shared/std_specs.rs
//@include _shared/signal_prelude.rs
//@include _shared/helpers.rs

// R-unchecked: `x.get_unchecked(i)` is rewritten to `get_unchecked_(x, i)`; the bound becomes a proof obligation at every
// call site ("never reads or writes outside the slices")
#[verifier::external_body]
fn get_unchecked_<T>(s: &[T], i: usize) -> (r: &T)
    requires i < s@.len()
    ensures *r == s@[i as int]
{ unsafe { s.get_unchecked(i) } }
#[verifier::external_body]
fn get_unchecked_mut_<T>(s: &mut [T], i: usize) -> (r: &mut T)
    requires i < old(s)@.len()
    ensures *r == (*old(s))@[i as int], (*final(s))@ == (*old(s))@.update(i as int, *final(r))
{ unsafe { s.get_unchecked_mut(i) } }

/// element-wise: a'[i] is what the closure returns for (a[i], b[i]); length unchanged; b untouched (shared borrow)
pub open spec fn zipped<FA, FB, M: FnMut(FA, FB) -> FA>(f: M, a0: Seq<FA>, b: Seq<FB>, a1: Seq<FA>) -> bool {
    a1.len() == a0.len() && forall|i: int| 0 <= i < a0.len() ==> call_ensures(f, (a0[i], b[i]), #[trigger] a1[i])
}

//@fn file=dasp_slice/src/lib.rs in="top" name=zip_map_in_place_unchecked label=zip_map_in_place_unchecked
//@spec
        requires old(a)@.len() == b@.len(), forall|x: FA, y: FB| call_requires(zip_map, (x, y)),
        ensures zipped(zip_map, old(a)@, b@, final(a)@),
//@entry
        let ghost f0 = zip_map;      // (calling an FnMut does not change it in Verus' closure model; a loop needs that as an invariant)
//@loop 0 iter=it
            invariant
                zip_map == f0,
                it.iter.end == a@.len(), a@.len() == old(a)@.len(), old(a)@.len() == b@.len(),
                forall|x: FA, y: FB| call_requires(zip_map, (x, y)),
                forall|k: int| 0 <= k < i ==> call_ensures(zip_map, (old(a)@[k], b@[k]), #[trigger] a@[k]),
                forall|k: int| i <= k < a@.len() ==> a@[k] == old(a)@[k],
//@end

//@fn file=dasp_slice/src/lib.rs in="top" name=zip_map_in_place label=zip_map_in_place vis=pub "rules=R-macroassert,R-assert"
//@spec
        requires forall|x: FA, y: FB| call_requires(zip_map, (x, y)),
        // returns only for equal lengths (a mismatch panics before anything is written: bounded Kani harnesses), and then
        // the result is the element-wise operation
        ensures old(a)@.len() == b@.len(), zipped(zip_map, old(a)@, b@, final(a)@),
//@end

//@fn file=dasp_slice/src/lib.rs in="top" name=write label=write vis=pub
//@spec
        ensures old(a)@.len() == b@.len(), final(a)@ =~= b@,
//@closure 0 "|_, b|"
|a_: F, b: F| -> (r_: F)
            ensures r_ == b
//@end

//@fn file=dasp_slice/src/lib.rs in="top" name=add_in_place label=add_in_place vis=pub
//@spec
        ensures old(a)@.len() == b@.len(), final(a)@.len() == old(a)@.len(),
            forall|i: int| 0 <= i < b@.len() ==> #[trigger] final(a)@[i] == add_amp_spec(old(a)@[i], b@[i]),
//@closure 0 "|a, b|"
|a: FA, b: FB| -> (r_: FA)
            ensures r_ == add_amp_spec(a, b)
//@end

// (add_in_place_with_amp_per_channel: its bounds need `<FA::Sample as Sample>::Signed: Sample`, which the shared prelude's Sample
//  trait does not state (Verus forbids the self-referential bound); it goes through the same zip_map_in_place and stays with
//  the bounded Kani harness)

} // verus!
fn main() {}
