// Unit buffered (C14): dasp_signal::Buffered / BufferedFrames, verified against the CONTRACT of
// ring_buffer::Bounded (its bodies are verified in unit ring_buffer, here they are external) and the
// trait contract of Signal.
use vstd::prelude::*;
use vstd::arithmetic::div_mod::*;
use vstd::std_specs::ops::*;
use vstd::std_specs::cmp::*;
use core::mem;
verus! {

//@include _shared/std_specs.rs
//@include _shared/rb_prelude.rs
//@include _shared/rb_bounded.rs external
//@include _shared/signal_prelude.rs

pub mod ring_buffer { pub use super::{Bounded, Slice, SliceMut}; }

/// a chain of |fs| transitions of the source under configuration c: ss are the states passed through
/// (ss[0] before the first pull, ss[i+1] after frame fs[i] was yielded)
pub open spec fn chain<S: Signal>(c: S::Cfg, ss: Seq<S::State>, fs: Seq<S::Frame>) -> bool {
    ss.len() == fs.len() + 1
    && forall|i: int| 0 <= i < fs.len() ==> S::trans(c, ss[i], #[trigger] fs[i], ss[i + 1])
}

pub proof fn lemma_chain_push<S: Signal>(c: S::Cfg, ss: Seq<S::State>, fs: Seq<S::Frame>, f: S::Frame, s2: S::State)
    requires chain::<S>(c, ss, fs), S::trans(c, ss.last(), f, s2)
    ensures chain::<S>(c, ss.push(s2), fs.push(f))
{
    let ss2 = ss.push(s2); let fs2 = fs.push(f);
    assert forall|i: int| 0 <= i < fs2.len() implies S::trans(c, ss2[i], #[trigger] fs2[i], ss2[i + 1]) by {
        if i < fs.len() { assert(fs2[i] == fs[i]); assert(S::trans(c, ss[i], fs[i], ss[i + 1])); }
    }
}

//@struct file=dasp_signal/src/lib.rs name=Buffered
//@struct file=dasp_signal/src/lib.rs name=BufferedFrames

//@impl file=dasp_signal/src/lib.rs header="impl<S, D> Signal for Buffered<S, D>"
//@item file=dasp_signal/src/lib.rs in="impl:<S, D> Signal for Buffered<S, D>" kind=type name=Frame
    /// (source state, frames waiting in the ring buffer oldest-first)
    type State = (S::State, Seq<S::Frame>);
    /// (source configuration, ring buffer capacity)
    type Cfg = (S::Cfg, int);
    open spec fn st(&self) -> Self::State { (self.signal.st(), self.ring_buffer.seq()) }
    open spec fn cfg(&self) -> Self::Cfg { (self.signal.cfg(), self.ring_buffer.cap()) }
    /// any valid (start, len) pre-fill: the precondition is just the ring buffer's representation invariant
    open spec fn inv(&self) -> bool { self.signal.inv() && self.ring_buffer.wf() }
    open spec fn trans(c: Self::Cfg, s: Self::State, f: Self::Frame, s2: Self::State) -> bool {
        if s.1.len() > 0 {
            // buffered frames first; the source is not pulled
            f == s.1[0] && s2 == (s.0, s.1.drop_first())
        } else {
            // empty: exactly one buffer's worth (cap) of source frames is pulled, the first is yielded
            exists|ss: Seq<S::State>, fs: Seq<S::Frame>| #[trigger] chain::<S>(c.0, ss, fs) && fs.len() == c.1
                && ss[0] == s.0 && ss.last() == s2.0 && f == fs[0] && s2.1 == fs.drop_first()
        }
    }
    /// exhausted only when the source is exhausted AND every buffered frame has been delivered
    open spec fn exh(s: Self::State) -> bool { s.1.len() == 0 && S::exh(s.0) }
//@fn file=dasp_signal/src/lib.rs in="impl:<S, D> Signal for Buffered<S, D>" name=next label=Buffered::next rules=R-refmut
//@entry
        let ghost s0 = self.signal.st();
        let ghost c0 = self.signal.cfg();
        let ghost q0 = self.ring_buffer.seq();
        let ghost cap = self.ring_buffer.cap();
        let ghost mut ss: Seq<S::State> = seq![s0];
//@loop 0
            invariant
                s0 == old(self).signal.st(), c0 == old(self).signal.cfg(), q0 == old(self).ring_buffer.seq(),
                cap == old(self).ring_buffer.cap(), cap >= 1,
                self.signal.inv(), self.signal.cfg() == c0, self.ring_buffer.wf(), self.ring_buffer.cap() == cap,
                q0.len() > 0 ==> self.ring_buffer.seq() == q0 && self.signal.st() == s0,
                q0.len() == 0 ==> (self.ring_buffer.seq().len() == 0 && self.signal.st() == s0)
                    || (self.ring_buffer.seq().len() == cap && chain::<S>(c0, ss, self.ring_buffer.seq()) && ss[0] == s0 && ss.last() == self.signal.st()),
                q0.len() == 0 && self.ring_buffer.seq().len() == 0 ==> ss == seq![s0],
            decreases (if self.ring_buffer.seq().len() > 0 { 0int } else { 1int }),
//@loop 1 iter=it var=j
                        invariant
                            it.iter.end == cap, cap >= 1, q0.len() == 0,
                            self.signal.inv(), self.signal.cfg() == c0, self.ring_buffer.wf(), self.ring_buffer.cap() == cap,
                            self.ring_buffer.seq().len() == j_, j_ <= cap,
                            chain::<S>(c0, ss, self.ring_buffer.seq()), ss[0] == s0, ss.last() == self.signal.st(),
//@before 0 "self.ring_buffer.push(self.signal.next());"
                        let ghost qb = self.ring_buffer.seq(); let ghost sb = self.signal.st();
//@after 0 "self.ring_buffer.push(self.signal.next());"
                        proof {
                            let f = self.ring_buffer.seq().last();
                            assert(self.ring_buffer.seq() == qb.push(f));
                            lemma_chain_push::<S>(c0, ss, qb, f, self.signal.st());
                            ss = ss.push(self.signal.st());
                        }
//@arm 0 "Some(frame) => return frame,"
                proof {
                    let c = (c0, cap); let s = (s0, q0); let s2 = (self.signal.st(), self.ring_buffer.seq());
                    assert(c.0 == c0 && c.1 == cap && s.0 == s0 && s.1 == q0 && s2.0 == self.signal.st() && s2.1 == self.ring_buffer.seq());
                }
//@end
//@fn file=dasp_signal/src/lib.rs in="impl:<S, D> Signal for Buffered<S, D>" name=is_exhausted label=Buffered::is_exhausted
//@end
//@endimpl


//@impl file=dasp_signal/src/lib.rs header="impl<S, D> Buffered<S, D>"
//@fn file=dasp_signal/src/lib.rs in="impl:<S, D> Buffered<S, D>" name=next_frames ret=r label=Buffered::next_frames
//@spec
        requires old(self).inv(),
        ensures
            final(self).signal.inv(), final(self).signal.cfg() == old(self).signal.cfg(),
            r.ring_buffer.wf(), r.ring_buffer.cap() == old(self).ring_buffer.cap(),
            // the returned iterator drains this very ring buffer
            *final(r.ring_buffer) == final(self).ring_buffer,
            // refill if and only if empty: then exactly cap source frames were pulled, in order
            old(self).ring_buffer.seq().len() > 0 ==>
                r.ring_buffer.seq() == old(self).ring_buffer.seq() && final(self).signal.st() == old(self).signal.st(),
            old(self).ring_buffer.seq().len() == 0 ==>
                exists|ss: Seq<S::State>| #[trigger] chain::<S>(old(self).signal.cfg(), ss, r.ring_buffer.seq())
                    && r.ring_buffer.seq().len() == old(self).ring_buffer.cap()
                    && ss[0] == old(self).signal.st() && ss.last() == final(self).signal.st(),
//@entry
        let ghost s0 = self.signal.st();
        let ghost c0 = self.signal.cfg();
        let ghost cap = self.ring_buffer.cap();
        let ghost mut ss: Seq<S::State> = seq![s0];
//@loop 0 iter=it var=j
                invariant
                    it.iter.end == cap, cap >= 1,
                    signal.inv(), signal.cfg() == c0, ring_buffer.wf(), ring_buffer.cap() == cap,
                    ring_buffer.seq().len() == j_, j_ <= cap,
                    chain::<S>(c0, ss, ring_buffer.seq()), ss[0] == s0, ss.last() == signal.st(),
//@before 0 "ring_buffer.push(signal.next());"
                let ghost qb = ring_buffer.seq();
//@after 0 "ring_buffer.push(signal.next());"
                proof {
                    let f = ring_buffer.seq().last();
                    assert(ring_buffer.seq() == qb.push(f));
                    lemma_chain_push::<S>(c0, ss, qb, f, signal.st());
                    ss = ss.push(signal.st());
                }
//@tail
        proof {
            // witness of the existential in the postcondition
            if old(self).ring_buffer.seq().len() == 0 {
                assert(chain::<S>(c0, ss, tail_.ring_buffer.seq()) && ss[0] == s0 && tail_.ring_buffer.seq().len() == cap);
            }
        }
//@end
//@fn file=dasp_signal/src/lib.rs in="impl:<S, D> Buffered<S, D>" name=into_parts ret=r label=Buffered::into_parts
//@spec
        ensures r.0 == self.signal, r.1 == self.ring_buffer,
//@end
//@endimpl

//@impl file=dasp_signal/src/lib.rs header="impl<'a, D> Iterator for BufferedFrames<'a, D>" as="impl<'a, D> BufferedFrames<'a, D>"
//@fn file=dasp_signal/src/lib.rs in="impl:<'a, D> Iterator for BufferedFrames<'a, D>" name=next ret=r label=BufferedFrames::next rules=R-subst:Self::Item=>D::Element
//@spec
        requires old(self).ring_buffer.wf(),
        ensures
            final(self).ring_buffer.wf(), final(self).ring_buffer.cap() == old(self).ring_buffer.cap(),
            old(self).ring_buffer.seq().len() == 0 ==> r is None && final(self).ring_buffer.seq() =~= old(self).ring_buffer.seq(),
            old(self).ring_buffer.seq().len() > 0 ==> r == Some(old(self).ring_buffer.seq()[0])
                && final(self).ring_buffer.seq() =~= old(self).ring_buffer.seq().drop_first(),
//@end
//@endimpl

// constructor (default method of trait Signal): builds the adaptor, pulls nothing
pub trait SignalBuffered: Signal + Sized {
//@fn file=dasp_signal/src/lib.rs in="trait:Signal" name=buffered ret=r label=Signal::buffered
//@spec
        ensures r.signal == self, r.ring_buffer == ring_buffer,
//@end
}
impl<T: Signal + Sized> SignalBuffered for T {}
} // verus!
fn main() {}
