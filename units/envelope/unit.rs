// Unit envelope (C19, follower clause, structure for EVERY frame format, channel count and history): Detector::next runs
// its detector exactly once on the input frame, chooses attack or release PER CHANNEL by comparing the previous envelope with
// the detected value, computes  detected + (previous - detected) * gain  channel by channel, stores the result as the new
// previous envelope and returns it; the setters change one gain each and nothing else.
// Sample-level operations (add_amp, mul_amp, conversions) are uninterpreted here — C03 / C01 / C02 decide them; the value of
// the gains (calc_gain: libm powf) is an uninterpreted function of the frame count (Kani decides "0 frames => gain 0").
use vstd::prelude::*;
use vstd::std_specs::ops::*;
use vstd::std_specs::cmp::*;
verus! {

//@include _shared/std_specs.rs
//@include _shared/signal_prelude.rs

pub open spec fn lt<T: PartialOrd>(a: T, b: T) -> bool { a.partial_cmp_spec(&b) == Some(core::cmp::Ordering::Less) }

// sample-level operations (dasp_sample::Sample): assumed contracts over uninterpreted functions
pub uninterp spec fn s_add_amp<S: Sample>(s: S, a: S::Signed) -> S;
pub uninterp spec fn s_mul_amp<S: Sample>(s: S, a: S::Float) -> S;
pub trait SampleOps: Sample {
    fn add_amp(self, a: Self::Signed) -> (r: Self) ensures r == s_add_amp(self, a);
    fn mul_amp(self, a: Self::Float) -> (r: Self) ensures r == s_mul_amp(self, a);
    fn to_signed_sample(self) -> (r: Self::Signed) ensures r == conv_spec::<Self, Self::Signed>(self);
}
impl<T: Sample> SampleOps for T {
    #[verifier::external_body] fn add_amp(self, a: Self::Signed) -> (r: Self) { unimplemented!() }
    #[verifier::external_body] fn mul_amp(self, a: Self::Float) -> (r: Self) { unimplemented!() }
    #[verifier::external_body] fn to_signed_sample(self) -> (r: Self::Signed) { unimplemented!() }
}
/// Frame::zip_map: the closure is applied once per channel to (self.ch(i), other.ch(i)) (C03)
pub trait FrameZip: Frame {
    fn zip_map<O, F, M>(self, other: O, zip_map: M) -> (r: F)
        where O: Frame<NumChannels = Self::NumChannels>, F: Frame<NumChannels = Self::NumChannels>, M: FnMut(Self::Sample, O::Sample) -> F::Sample
        requires forall|x: Self::Sample, y: O::Sample| call_requires(zip_map, (x, y)),
        ensures forall|i: int| 0 <= i < Self::nch() ==> call_ensures(zip_map, (self.ch(i), other.ch(i)), #[trigger] r.ch(i));
}
impl<T: Frame> FrameZip for T {
    #[verifier::external_body]
    fn zip_map<O, F, M>(self, other: O, zip_map: M) -> (r: F)
        where O: Frame<NumChannels = Self::NumChannels>, F: Frame<NumChannels = Self::NumChannels>, M: FnMut(Self::Sample, O::Sample) -> F::Sample
    { unimplemented!() }
}

/// contract of the trait Detect: a deterministic state machine
pub trait Detect<F: Frame> {
    type Output: Frame<NumChannels = F::NumChannels>;
    type DSt;
    spec fn dst(&self) -> Self::DSt;
    spec fn dstep(s: Self::DSt, frame: F) -> (Self::Output, Self::DSt);
    fn detect(&mut self, frame: F) -> (r: Self::Output)
        ensures (r, (*final(self)).dst()) == Self::dstep((*old(self)).dst(), frame);
}

/// gain e^(-1/frames) (0 for 0 frames): libm powf, uninterpreted here
pub uninterp spec fn gain_spec(frames: f32) -> f32;
#[verifier::external_body]
fn calc_gain(n_frames: f32) -> (r: f32) ensures r == gain_spec(n_frames) { unimplemented!() }

//@struct file=dasp_envelope/src/detect/mod.rs name=Detector

/// one channel of the one-pole update: detected + (previous - detected) * gain, gain chosen by `previous < detected`
pub open spec fn step_spec<S: Sample>(l: S, d: S, attack: f32, release: f32) -> S {
    let gain = if lt(l, d) { attack } else { release };
    let diff = s_add_amp(l, conv_spec::<S, S::Signed>(d).neg_spec());
    s_add_amp(d, conv_spec::<S, S::Signed>(s_mul_amp(diff, conv_spec::<f32, S::Float>(gain))))
}

//@impl file=dasp_envelope/src/detect/mod.rs header="impl<F, D> Detector<F, D>" has=next
//@fn file=dasp_envelope/src/detect/mod.rs in="impl:<F, D> Detector<F, D>" name=new ret=r label=Detector::new vis=pub
//@spec
        // attack and release keep their places; the envelope starts at equilibrium; the detector is the one given
        ensures r.attack_gain == gain_spec(attack_frames), r.release_gain == gain_spec(release_frames),
            r.last_env_frame == <D::Output as Frame>::equilibrium_spec(), r.detect == detect,
//@end
//@fn file=dasp_envelope/src/detect/mod.rs in="impl:<F, D> Detector<F, D>" name=set_attack_frames label=Detector::set_attack_frames vis=pub
//@spec
        // changing the attack time changes the attack gain and NOTHING else (past output, release gain, detector untouched)
        ensures final(self).attack_gain == gain_spec(frames), final(self).release_gain == old(self).release_gain,
            final(self).last_env_frame == old(self).last_env_frame, final(self).detect == old(self).detect,
//@end
//@fn file=dasp_envelope/src/detect/mod.rs in="impl:<F, D> Detector<F, D>" name=set_release_frames label=Detector::set_release_frames vis=pub
//@spec
        ensures final(self).release_gain == gain_spec(frames), final(self).attack_gain == old(self).attack_gain,
            final(self).last_env_frame == old(self).last_env_frame, final(self).detect == old(self).detect,
//@end
//@fn file=dasp_envelope/src/detect/mod.rs in="impl:<F, D> Detector<F, D>" name=next ret=r label=Detector::next vis=pub rules=R-refmut
//@spec
        // side conditions: the sample type's `<` and its signed companion's unary `-` follow their vstd specs (true of every
        // primitive), and the negated signed amplitude of a detected value is representable (the rectifiers guarantee more)
        requires
            <<D::Output as Frame>::Sample as PartialOrdSpec>::obeys_partial_cmp_spec(),
            <<<D::Output as Frame>::Sample as Sample>::Signed as NegSpec>::obeys_neg_spec(),
            forall|x: <D::Output as Frame>::Sample| (#[trigger] conv_spec::<<D::Output as Frame>::Sample, <<D::Output as Frame>::Sample as Sample>::Signed>(x)).neg_req(),
        ensures
            // the detector runs exactly once, on this frame
            final(self).detect.dst() == D::dstep(old(self).detect.dst(), frame).1,
            // per channel: the one-pole update with the per-channel attack / release choice
            forall|i: int| 0 <= i < <D::Output as Frame>::nch() ==> #[trigger] r.ch(i) ==
                step_spec(old(self).last_env_frame.ch(i), D::dstep(old(self).detect.dst(), frame).0.ch(i), old(self).attack_gain, old(self).release_gain),
            // the returned envelope is stored as the previous envelope of the next call; the gains are untouched
            final(self).last_env_frame == r,
            final(self).attack_gain == old(self).attack_gain, final(self).release_gain == old(self).release_gain,
//@closure 0 "|l, d|"
|l: <D::Output as Frame>::Sample, d: <D::Output as Frame>::Sample| -> (r_: <D::Output as Frame>::Sample)
            ensures r_ == step_spec(l, d, self.attack_gain, self.release_gain)
//@end
//@endimpl

} // verus!
fn main() {}
