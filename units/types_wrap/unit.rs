// Unit types_wrap (C15): wrap_overflow_once / wrap_overflow / From<Rep> / new / inner of the 8 custom
// width sample types, extracted by instantiating the `new_sample_type!` macro arm with the arguments of
// each invocation.  The wrap loops run up to 2^15 iterations (I48 from i64): beyond unrolling, hence Verus.
use vstd::prelude::*;
use vstd::arithmetic::div_mod::*;
verus! {

/// a === b (mod m)
pub open spec fn congruent(a: int, b: int, m: int) -> bool { (a - b) % m == 0 }

pub proof fn lemma_cong_step(a: int, b: int, m: int)
    requires m > 0, congruent(a, b, m)
    ensures congruent(a - m, b, m), congruent(a + m, b, m)
{
    lemma_mod_sub_multiples_vanish(a - b, m);
    lemma_mod_add_multiples_vanish(a - b, m);
    assert((a - m) - b == -m + (a - b));
    assert((a + m) - b == m + (a - b));
}

// ---- I11: i16, 11 bits ------------------------------------------------------------------
pub mod i11 {
    use super::*;
//@item file=dasp_sample/src/types.rs macro=new_sample_type arm=0 bind="T=I11;Rep=i16;EQ=0;MIN=-1024;MAX=1023;TOTAL=2048;rest=" kind=const name=MIN_REP
//@item file=dasp_sample/src/types.rs macro=new_sample_type arm=0 bind="T=I11;Rep=i16;EQ=0;MIN=-1024;MAX=1023;TOTAL=2048;rest=" kind=const name=MAX_REP
//@item file=dasp_sample/src/types.rs macro=new_sample_type arm=0 bind="T=I11;Rep=i16;EQ=0;MIN=-1024;MAX=1023;TOTAL=2048;rest=" kind=const name=TOTAL
//@struct file=dasp_sample/src/types.rs macro=new_sample_type arm=0 bind="T=I11;Rep=i16;EQ=0;MIN=-1024;MAX=1023;TOTAL=2048;rest=" name=I11

    pub open spec fn in_range(v: int) -> bool { -1024 <= v <= 1023 }

//@impl file=dasp_sample/src/types.rs macro=new_sample_type arm=0 bind="T=I11;Rep=i16;EQ=0;MIN=-1024;MAX=1023;TOTAL=2048;rest=" header="impl From<i16> for I11" as="impl I11"
//@fn file=dasp_sample/src/types.rs macro=new_sample_type arm=0 bind="T=I11;Rep=i16;EQ=0;MIN=-1024;MAX=1023;TOTAL=2048;rest=" in="impl:From<i16> for I11" name=from ret=r label=I11::from vis=pub
//@spec
        // conversion from the backing integer wraps modulo 2^11 into range, for EVERY value of i16
        ensures in_range(r.0 as int), congruent(r.0 as int, val as int, 2048),
//@end
//@endimpl

//@impl file=dasp_sample/src/types.rs macro=new_sample_type arm=0 bind="T=I11;Rep=i16;EQ=0;MIN=-1024;MAX=1023;TOTAL=2048;rest=" header="impl I11"
//@fn file=dasp_sample/src/types.rs macro=new_sample_type arm=0 bind="T=I11;Rep=i16;EQ=0;MIN=-1024;MAX=1023;TOTAL=2048;rest=" in="impl:I11" name=new ret=r label=I11::new vis=pub
//@spec
        ensures r.is_some() == in_range(val as int), r.is_some() ==> r.unwrap().0 == val,
//@end
//@fn file=dasp_sample/src/types.rs macro=new_sample_type arm=0 bind="T=I11;Rep=i16;EQ=0;MIN=-1024;MAX=1023;TOTAL=2048;rest=" in="impl:I11" name=inner ret=r label=I11::inner vis=pub
//@spec
        ensures r == self.0,
//@end
//@fn file=dasp_sample/src/types.rs macro=new_sample_type arm=0 bind="T=I11;Rep=i16;EQ=0;MIN=-1024;MAX=1023;TOTAL=2048;rest=" in="impl:I11" name=wrap_overflow_once ret=r label=I11::wrap_overflow_once vis=pub
//@spec
        // within one TOTAL of the range (the case of +, - on in-range operands): one wrap suffices
        requires -1024 - 2048 <= self.0 <= 1023 + 2048,
        ensures in_range(r.0 as int), congruent(r.0 as int, self.0 as int, 2048),
//@entry
        proof { lemma_cong_step(self.0 as int, self.0 as int, 2048); assert(congruent(self.0 as int, self.0 as int, 2048)); }
//@end
//@fn file=dasp_sample/src/types.rs macro=new_sample_type arm=0 bind="T=I11;Rep=i16;EQ=0;MIN=-1024;MAX=1023;TOTAL=2048;rest=" in="impl:I11" name=wrap_overflow ret=r label=I11::wrap_overflow rules=R-mutself vis=pub
//@spec
        ensures in_range(r.0 as int), congruent(r.0 as int, self.0 as int, 2048),
//@entry
        let ghost v0 = self.0 as int;
        proof { assert(congruent(v0, v0, 2048)); }
//@loop 0
                    invariant congruent(this.0 as int, v0, 2048), v0 == self.0, this.0 <= v0, this.0 == v0 || this.0 >= -1024,
                    decreases this.0 - (-1024),
//@before 0 "this.0 -= TOTAL;"
                    proof { lemma_cong_step(this.0 as int, v0, 2048); }
//@loop 1
                    invariant congruent(this.0 as int, v0, 2048), this.0 <= 1023, v0 == self.0,
                    decreases 1023 - this.0,
//@before 0 "this.0 += TOTAL;"
                    proof { lemma_cong_step(this.0 as int, v0, 2048); }
//@end
//@endimpl
}

// ---- I20: i32, 20 bits ------------------------------------------------------------------
pub mod i20 {
    use super::*;
//@item file=dasp_sample/src/types.rs macro=new_sample_type arm=0 bind="T=I20;Rep=i32;EQ=0;MIN=-524_288;MAX=524_287;TOTAL=1_048_576;rest=" kind=const name=MIN_REP
//@item file=dasp_sample/src/types.rs macro=new_sample_type arm=0 bind="T=I20;Rep=i32;EQ=0;MIN=-524_288;MAX=524_287;TOTAL=1_048_576;rest=" kind=const name=MAX_REP
//@item file=dasp_sample/src/types.rs macro=new_sample_type arm=0 bind="T=I20;Rep=i32;EQ=0;MIN=-524_288;MAX=524_287;TOTAL=1_048_576;rest=" kind=const name=TOTAL
//@struct file=dasp_sample/src/types.rs macro=new_sample_type arm=0 bind="T=I20;Rep=i32;EQ=0;MIN=-524_288;MAX=524_287;TOTAL=1_048_576;rest=" name=I20

    pub open spec fn in_range(v: int) -> bool { -524_288 <= v <= 524_287 }

//@impl file=dasp_sample/src/types.rs macro=new_sample_type arm=0 bind="T=I20;Rep=i32;EQ=0;MIN=-524_288;MAX=524_287;TOTAL=1_048_576;rest=" header="impl From<i32> for I20" as="impl I20"
//@fn file=dasp_sample/src/types.rs macro=new_sample_type arm=0 bind="T=I20;Rep=i32;EQ=0;MIN=-524_288;MAX=524_287;TOTAL=1_048_576;rest=" in="impl:From<i32> for I20" name=from ret=r label=I20::from vis=pub
//@spec
        // conversion from the backing integer wraps modulo 2^20 into range, for EVERY value of i32
        ensures in_range(r.0 as int), congruent(r.0 as int, val as int, 1_048_576),
//@end
//@endimpl

//@impl file=dasp_sample/src/types.rs macro=new_sample_type arm=0 bind="T=I20;Rep=i32;EQ=0;MIN=-524_288;MAX=524_287;TOTAL=1_048_576;rest=" header="impl I20"
//@fn file=dasp_sample/src/types.rs macro=new_sample_type arm=0 bind="T=I20;Rep=i32;EQ=0;MIN=-524_288;MAX=524_287;TOTAL=1_048_576;rest=" in="impl:I20" name=new ret=r label=I20::new vis=pub
//@spec
        ensures r.is_some() == in_range(val as int), r.is_some() ==> r.unwrap().0 == val,
//@end
//@fn file=dasp_sample/src/types.rs macro=new_sample_type arm=0 bind="T=I20;Rep=i32;EQ=0;MIN=-524_288;MAX=524_287;TOTAL=1_048_576;rest=" in="impl:I20" name=inner ret=r label=I20::inner vis=pub
//@spec
        ensures r == self.0,
//@end
//@fn file=dasp_sample/src/types.rs macro=new_sample_type arm=0 bind="T=I20;Rep=i32;EQ=0;MIN=-524_288;MAX=524_287;TOTAL=1_048_576;rest=" in="impl:I20" name=wrap_overflow_once ret=r label=I20::wrap_overflow_once vis=pub
//@spec
        // within one TOTAL of the range (the case of +, - on in-range operands): one wrap suffices
        requires -524_288 - 1_048_576 <= self.0 <= 524_287 + 1_048_576,
        ensures in_range(r.0 as int), congruent(r.0 as int, self.0 as int, 1_048_576),
//@entry
        proof { lemma_cong_step(self.0 as int, self.0 as int, 1_048_576); assert(congruent(self.0 as int, self.0 as int, 1_048_576)); }
//@end
//@fn file=dasp_sample/src/types.rs macro=new_sample_type arm=0 bind="T=I20;Rep=i32;EQ=0;MIN=-524_288;MAX=524_287;TOTAL=1_048_576;rest=" in="impl:I20" name=wrap_overflow ret=r label=I20::wrap_overflow rules=R-mutself vis=pub
//@spec
        ensures in_range(r.0 as int), congruent(r.0 as int, self.0 as int, 1_048_576),
//@entry
        let ghost v0 = self.0 as int;
        proof { assert(congruent(v0, v0, 1_048_576)); }
//@loop 0
                    invariant congruent(this.0 as int, v0, 1_048_576), v0 == self.0, this.0 <= v0, this.0 == v0 || this.0 >= -524_288,
                    decreases this.0 - (-524_288),
//@before 0 "this.0 -= TOTAL;"
                    proof { lemma_cong_step(this.0 as int, v0, 1_048_576); }
//@loop 1
                    invariant congruent(this.0 as int, v0, 1_048_576), this.0 <= 524_287, v0 == self.0,
                    decreases 524_287 - this.0,
//@before 0 "this.0 += TOTAL;"
                    proof { lemma_cong_step(this.0 as int, v0, 1_048_576); }
//@end
//@endimpl
}

// ---- I24: i32, 24 bits ------------------------------------------------------------------
pub mod i24 {
    use super::*;
//@item file=dasp_sample/src/types.rs macro=new_sample_type arm=0 bind="T=I24;Rep=i32;EQ=0;MIN=-8_388_608;MAX=8_388_607;TOTAL=16_777_216;rest=" kind=const name=MIN_REP
//@item file=dasp_sample/src/types.rs macro=new_sample_type arm=0 bind="T=I24;Rep=i32;EQ=0;MIN=-8_388_608;MAX=8_388_607;TOTAL=16_777_216;rest=" kind=const name=MAX_REP
//@item file=dasp_sample/src/types.rs macro=new_sample_type arm=0 bind="T=I24;Rep=i32;EQ=0;MIN=-8_388_608;MAX=8_388_607;TOTAL=16_777_216;rest=" kind=const name=TOTAL
//@struct file=dasp_sample/src/types.rs macro=new_sample_type arm=0 bind="T=I24;Rep=i32;EQ=0;MIN=-8_388_608;MAX=8_388_607;TOTAL=16_777_216;rest=" name=I24

    pub open spec fn in_range(v: int) -> bool { -8_388_608 <= v <= 8_388_607 }

//@impl file=dasp_sample/src/types.rs macro=new_sample_type arm=0 bind="T=I24;Rep=i32;EQ=0;MIN=-8_388_608;MAX=8_388_607;TOTAL=16_777_216;rest=" header="impl From<i32> for I24" as="impl I24"
//@fn file=dasp_sample/src/types.rs macro=new_sample_type arm=0 bind="T=I24;Rep=i32;EQ=0;MIN=-8_388_608;MAX=8_388_607;TOTAL=16_777_216;rest=" in="impl:From<i32> for I24" name=from ret=r label=I24::from vis=pub
//@spec
        // conversion from the backing integer wraps modulo 2^24 into range, for EVERY value of i32
        ensures in_range(r.0 as int), congruent(r.0 as int, val as int, 16_777_216),
//@end
//@endimpl

//@impl file=dasp_sample/src/types.rs macro=new_sample_type arm=0 bind="T=I24;Rep=i32;EQ=0;MIN=-8_388_608;MAX=8_388_607;TOTAL=16_777_216;rest=" header="impl I24"
//@fn file=dasp_sample/src/types.rs macro=new_sample_type arm=0 bind="T=I24;Rep=i32;EQ=0;MIN=-8_388_608;MAX=8_388_607;TOTAL=16_777_216;rest=" in="impl:I24" name=new ret=r label=I24::new vis=pub
//@spec
        ensures r.is_some() == in_range(val as int), r.is_some() ==> r.unwrap().0 == val,
//@end
//@fn file=dasp_sample/src/types.rs macro=new_sample_type arm=0 bind="T=I24;Rep=i32;EQ=0;MIN=-8_388_608;MAX=8_388_607;TOTAL=16_777_216;rest=" in="impl:I24" name=inner ret=r label=I24::inner vis=pub
//@spec
        ensures r == self.0,
//@end
//@fn file=dasp_sample/src/types.rs macro=new_sample_type arm=0 bind="T=I24;Rep=i32;EQ=0;MIN=-8_388_608;MAX=8_388_607;TOTAL=16_777_216;rest=" in="impl:I24" name=wrap_overflow_once ret=r label=I24::wrap_overflow_once vis=pub
//@spec
        // within one TOTAL of the range (the case of +, - on in-range operands): one wrap suffices
        requires -8_388_608 - 16_777_216 <= self.0 <= 8_388_607 + 16_777_216,
        ensures in_range(r.0 as int), congruent(r.0 as int, self.0 as int, 16_777_216),
//@entry
        proof { lemma_cong_step(self.0 as int, self.0 as int, 16_777_216); assert(congruent(self.0 as int, self.0 as int, 16_777_216)); }
//@end
//@fn file=dasp_sample/src/types.rs macro=new_sample_type arm=0 bind="T=I24;Rep=i32;EQ=0;MIN=-8_388_608;MAX=8_388_607;TOTAL=16_777_216;rest=" in="impl:I24" name=wrap_overflow ret=r label=I24::wrap_overflow rules=R-mutself vis=pub
//@spec
        ensures in_range(r.0 as int), congruent(r.0 as int, self.0 as int, 16_777_216),
//@entry
        let ghost v0 = self.0 as int;
        proof { assert(congruent(v0, v0, 16_777_216)); }
//@loop 0
                    invariant congruent(this.0 as int, v0, 16_777_216), v0 == self.0, this.0 <= v0, this.0 == v0 || this.0 >= -8_388_608,
                    decreases this.0 - (-8_388_608),
//@before 0 "this.0 -= TOTAL;"
                    proof { lemma_cong_step(this.0 as int, v0, 16_777_216); }
//@loop 1
                    invariant congruent(this.0 as int, v0, 16_777_216), this.0 <= 8_388_607, v0 == self.0,
                    decreases 8_388_607 - this.0,
//@before 0 "this.0 += TOTAL;"
                    proof { lemma_cong_step(this.0 as int, v0, 16_777_216); }
//@end
//@endimpl
}

// ---- I48: i64, 48 bits ------------------------------------------------------------------
pub mod i48 {
    use super::*;
//@item file=dasp_sample/src/types.rs macro=new_sample_type arm=0 bind="T=I48;Rep=i64;EQ=0;MIN=-140_737_488_355_328;MAX=140_737_488_355_327;TOTAL=281_474_976_710_656;rest=" kind=const name=MIN_REP
//@item file=dasp_sample/src/types.rs macro=new_sample_type arm=0 bind="T=I48;Rep=i64;EQ=0;MIN=-140_737_488_355_328;MAX=140_737_488_355_327;TOTAL=281_474_976_710_656;rest=" kind=const name=MAX_REP
//@item file=dasp_sample/src/types.rs macro=new_sample_type arm=0 bind="T=I48;Rep=i64;EQ=0;MIN=-140_737_488_355_328;MAX=140_737_488_355_327;TOTAL=281_474_976_710_656;rest=" kind=const name=TOTAL
//@struct file=dasp_sample/src/types.rs macro=new_sample_type arm=0 bind="T=I48;Rep=i64;EQ=0;MIN=-140_737_488_355_328;MAX=140_737_488_355_327;TOTAL=281_474_976_710_656;rest=" name=I48

    pub open spec fn in_range(v: int) -> bool { -140_737_488_355_328 <= v <= 140_737_488_355_327 }

//@impl file=dasp_sample/src/types.rs macro=new_sample_type arm=0 bind="T=I48;Rep=i64;EQ=0;MIN=-140_737_488_355_328;MAX=140_737_488_355_327;TOTAL=281_474_976_710_656;rest=" header="impl From<i64> for I48" as="impl I48"
//@fn file=dasp_sample/src/types.rs macro=new_sample_type arm=0 bind="T=I48;Rep=i64;EQ=0;MIN=-140_737_488_355_328;MAX=140_737_488_355_327;TOTAL=281_474_976_710_656;rest=" in="impl:From<i64> for I48" name=from ret=r label=I48::from vis=pub
//@spec
        // conversion from the backing integer wraps modulo 2^48 into range, for EVERY value of i64
        ensures in_range(r.0 as int), congruent(r.0 as int, val as int, 281_474_976_710_656),
//@end
//@endimpl

//@impl file=dasp_sample/src/types.rs macro=new_sample_type arm=0 bind="T=I48;Rep=i64;EQ=0;MIN=-140_737_488_355_328;MAX=140_737_488_355_327;TOTAL=281_474_976_710_656;rest=" header="impl I48"
//@fn file=dasp_sample/src/types.rs macro=new_sample_type arm=0 bind="T=I48;Rep=i64;EQ=0;MIN=-140_737_488_355_328;MAX=140_737_488_355_327;TOTAL=281_474_976_710_656;rest=" in="impl:I48" name=new ret=r label=I48::new vis=pub
//@spec
        ensures r.is_some() == in_range(val as int), r.is_some() ==> r.unwrap().0 == val,
//@end
//@fn file=dasp_sample/src/types.rs macro=new_sample_type arm=0 bind="T=I48;Rep=i64;EQ=0;MIN=-140_737_488_355_328;MAX=140_737_488_355_327;TOTAL=281_474_976_710_656;rest=" in="impl:I48" name=inner ret=r label=I48::inner vis=pub
//@spec
        ensures r == self.0,
//@end
//@fn file=dasp_sample/src/types.rs macro=new_sample_type arm=0 bind="T=I48;Rep=i64;EQ=0;MIN=-140_737_488_355_328;MAX=140_737_488_355_327;TOTAL=281_474_976_710_656;rest=" in="impl:I48" name=wrap_overflow_once ret=r label=I48::wrap_overflow_once vis=pub
//@spec
        // within one TOTAL of the range (the case of +, - on in-range operands): one wrap suffices
        requires -140_737_488_355_328 - 281_474_976_710_656 <= self.0 <= 140_737_488_355_327 + 281_474_976_710_656,
        ensures in_range(r.0 as int), congruent(r.0 as int, self.0 as int, 281_474_976_710_656),
//@entry
        proof { lemma_cong_step(self.0 as int, self.0 as int, 281_474_976_710_656); assert(congruent(self.0 as int, self.0 as int, 281_474_976_710_656)); }
//@end
//@fn file=dasp_sample/src/types.rs macro=new_sample_type arm=0 bind="T=I48;Rep=i64;EQ=0;MIN=-140_737_488_355_328;MAX=140_737_488_355_327;TOTAL=281_474_976_710_656;rest=" in="impl:I48" name=wrap_overflow ret=r label=I48::wrap_overflow rules=R-mutself vis=pub
//@spec
        ensures in_range(r.0 as int), congruent(r.0 as int, self.0 as int, 281_474_976_710_656),
//@entry
        let ghost v0 = self.0 as int;
        proof { assert(congruent(v0, v0, 281_474_976_710_656)); }
//@loop 0
                    invariant congruent(this.0 as int, v0, 281_474_976_710_656), v0 == self.0, this.0 <= v0, this.0 == v0 || this.0 >= -140_737_488_355_328,
                    decreases this.0 - (-140_737_488_355_328),
//@before 0 "this.0 -= TOTAL;"
                    proof { lemma_cong_step(this.0 as int, v0, 281_474_976_710_656); }
//@loop 1
                    invariant congruent(this.0 as int, v0, 281_474_976_710_656), this.0 <= 140_737_488_355_327, v0 == self.0,
                    decreases 140_737_488_355_327 - this.0,
//@before 0 "this.0 += TOTAL;"
                    proof { lemma_cong_step(this.0 as int, v0, 281_474_976_710_656); }
//@end
//@endimpl
}

// ---- U11: i16, 11 bits ------------------------------------------------------------------
pub mod u11 {
    use super::*;
//@item file=dasp_sample/src/types.rs macro=new_sample_type arm=0 bind="T=U11;Rep=i16;EQ=1024;MIN=0;MAX=2047;TOTAL=2048;rest=" kind=const name=MIN_REP
//@item file=dasp_sample/src/types.rs macro=new_sample_type arm=0 bind="T=U11;Rep=i16;EQ=1024;MIN=0;MAX=2047;TOTAL=2048;rest=" kind=const name=MAX_REP
//@item file=dasp_sample/src/types.rs macro=new_sample_type arm=0 bind="T=U11;Rep=i16;EQ=1024;MIN=0;MAX=2047;TOTAL=2048;rest=" kind=const name=TOTAL
//@struct file=dasp_sample/src/types.rs macro=new_sample_type arm=0 bind="T=U11;Rep=i16;EQ=1024;MIN=0;MAX=2047;TOTAL=2048;rest=" name=U11

    pub open spec fn in_range(v: int) -> bool { 0 <= v <= 2047 }

//@impl file=dasp_sample/src/types.rs macro=new_sample_type arm=0 bind="T=U11;Rep=i16;EQ=1024;MIN=0;MAX=2047;TOTAL=2048;rest=" header="impl From<i16> for U11" as="impl U11"
//@fn file=dasp_sample/src/types.rs macro=new_sample_type arm=0 bind="T=U11;Rep=i16;EQ=1024;MIN=0;MAX=2047;TOTAL=2048;rest=" in="impl:From<i16> for U11" name=from ret=r label=U11::from vis=pub
//@spec
        // conversion from the backing integer wraps modulo 2^11 into range, for EVERY value of i16
        ensures in_range(r.0 as int), congruent(r.0 as int, val as int, 2048),
//@end
//@endimpl

//@impl file=dasp_sample/src/types.rs macro=new_sample_type arm=0 bind="T=U11;Rep=i16;EQ=1024;MIN=0;MAX=2047;TOTAL=2048;rest=" header="impl U11"
//@fn file=dasp_sample/src/types.rs macro=new_sample_type arm=0 bind="T=U11;Rep=i16;EQ=1024;MIN=0;MAX=2047;TOTAL=2048;rest=" in="impl:U11" name=new ret=r label=U11::new vis=pub
//@spec
        ensures r.is_some() == in_range(val as int), r.is_some() ==> r.unwrap().0 == val,
//@end
//@fn file=dasp_sample/src/types.rs macro=new_sample_type arm=0 bind="T=U11;Rep=i16;EQ=1024;MIN=0;MAX=2047;TOTAL=2048;rest=" in="impl:U11" name=inner ret=r label=U11::inner vis=pub
//@spec
        ensures r == self.0,
//@end
//@fn file=dasp_sample/src/types.rs macro=new_sample_type arm=0 bind="T=U11;Rep=i16;EQ=1024;MIN=0;MAX=2047;TOTAL=2048;rest=" in="impl:U11" name=wrap_overflow_once ret=r label=U11::wrap_overflow_once vis=pub
//@spec
        // within one TOTAL of the range (the case of +, - on in-range operands): one wrap suffices
        requires 0 - 2048 <= self.0 <= 2047 + 2048,
        ensures in_range(r.0 as int), congruent(r.0 as int, self.0 as int, 2048),
//@entry
        proof { lemma_cong_step(self.0 as int, self.0 as int, 2048); assert(congruent(self.0 as int, self.0 as int, 2048)); }
//@end
//@fn file=dasp_sample/src/types.rs macro=new_sample_type arm=0 bind="T=U11;Rep=i16;EQ=1024;MIN=0;MAX=2047;TOTAL=2048;rest=" in="impl:U11" name=wrap_overflow ret=r label=U11::wrap_overflow rules=R-mutself vis=pub
//@spec
        ensures in_range(r.0 as int), congruent(r.0 as int, self.0 as int, 2048),
//@entry
        let ghost v0 = self.0 as int;
        proof { assert(congruent(v0, v0, 2048)); }
//@loop 0
                    invariant congruent(this.0 as int, v0, 2048), v0 == self.0, this.0 <= v0, this.0 == v0 || this.0 >= 0,
                    decreases this.0 - (0),
//@before 0 "this.0 -= TOTAL;"
                    proof { lemma_cong_step(this.0 as int, v0, 2048); }
//@loop 1
                    invariant congruent(this.0 as int, v0, 2048), this.0 <= 2047, v0 == self.0,
                    decreases 2047 - this.0,
//@before 0 "this.0 += TOTAL;"
                    proof { lemma_cong_step(this.0 as int, v0, 2048); }
//@end
//@endimpl
}

// ---- U20: i32, 20 bits ------------------------------------------------------------------
pub mod u20 {
    use super::*;
//@item file=dasp_sample/src/types.rs macro=new_sample_type arm=0 bind="T=U20;Rep=i32;EQ=524_288;MIN=0;MAX=1_048_575;TOTAL=1_048_576;rest=" kind=const name=MIN_REP
//@item file=dasp_sample/src/types.rs macro=new_sample_type arm=0 bind="T=U20;Rep=i32;EQ=524_288;MIN=0;MAX=1_048_575;TOTAL=1_048_576;rest=" kind=const name=MAX_REP
//@item file=dasp_sample/src/types.rs macro=new_sample_type arm=0 bind="T=U20;Rep=i32;EQ=524_288;MIN=0;MAX=1_048_575;TOTAL=1_048_576;rest=" kind=const name=TOTAL
//@struct file=dasp_sample/src/types.rs macro=new_sample_type arm=0 bind="T=U20;Rep=i32;EQ=524_288;MIN=0;MAX=1_048_575;TOTAL=1_048_576;rest=" name=U20

    pub open spec fn in_range(v: int) -> bool { 0 <= v <= 1_048_575 }

//@impl file=dasp_sample/src/types.rs macro=new_sample_type arm=0 bind="T=U20;Rep=i32;EQ=524_288;MIN=0;MAX=1_048_575;TOTAL=1_048_576;rest=" header="impl From<i32> for U20" as="impl U20"
//@fn file=dasp_sample/src/types.rs macro=new_sample_type arm=0 bind="T=U20;Rep=i32;EQ=524_288;MIN=0;MAX=1_048_575;TOTAL=1_048_576;rest=" in="impl:From<i32> for U20" name=from ret=r label=U20::from vis=pub
//@spec
        // conversion from the backing integer wraps modulo 2^20 into range, for EVERY value of i32
        ensures in_range(r.0 as int), congruent(r.0 as int, val as int, 1_048_576),
//@end
//@endimpl

//@impl file=dasp_sample/src/types.rs macro=new_sample_type arm=0 bind="T=U20;Rep=i32;EQ=524_288;MIN=0;MAX=1_048_575;TOTAL=1_048_576;rest=" header="impl U20"
//@fn file=dasp_sample/src/types.rs macro=new_sample_type arm=0 bind="T=U20;Rep=i32;EQ=524_288;MIN=0;MAX=1_048_575;TOTAL=1_048_576;rest=" in="impl:U20" name=new ret=r label=U20::new vis=pub
//@spec
        ensures r.is_some() == in_range(val as int), r.is_some() ==> r.unwrap().0 == val,
//@end
//@fn file=dasp_sample/src/types.rs macro=new_sample_type arm=0 bind="T=U20;Rep=i32;EQ=524_288;MIN=0;MAX=1_048_575;TOTAL=1_048_576;rest=" in="impl:U20" name=inner ret=r label=U20::inner vis=pub
//@spec
        ensures r == self.0,
//@end
//@fn file=dasp_sample/src/types.rs macro=new_sample_type arm=0 bind="T=U20;Rep=i32;EQ=524_288;MIN=0;MAX=1_048_575;TOTAL=1_048_576;rest=" in="impl:U20" name=wrap_overflow_once ret=r label=U20::wrap_overflow_once vis=pub
//@spec
        // within one TOTAL of the range (the case of +, - on in-range operands): one wrap suffices
        requires 0 - 1_048_576 <= self.0 <= 1_048_575 + 1_048_576,
        ensures in_range(r.0 as int), congruent(r.0 as int, self.0 as int, 1_048_576),
//@entry
        proof { lemma_cong_step(self.0 as int, self.0 as int, 1_048_576); assert(congruent(self.0 as int, self.0 as int, 1_048_576)); }
//@end
//@fn file=dasp_sample/src/types.rs macro=new_sample_type arm=0 bind="T=U20;Rep=i32;EQ=524_288;MIN=0;MAX=1_048_575;TOTAL=1_048_576;rest=" in="impl:U20" name=wrap_overflow ret=r label=U20::wrap_overflow rules=R-mutself vis=pub
//@spec
        ensures in_range(r.0 as int), congruent(r.0 as int, self.0 as int, 1_048_576),
//@entry
        let ghost v0 = self.0 as int;
        proof { assert(congruent(v0, v0, 1_048_576)); }
//@loop 0
                    invariant congruent(this.0 as int, v0, 1_048_576), v0 == self.0, this.0 <= v0, this.0 == v0 || this.0 >= 0,
                    decreases this.0 - (0),
//@before 0 "this.0 -= TOTAL;"
                    proof { lemma_cong_step(this.0 as int, v0, 1_048_576); }
//@loop 1
                    invariant congruent(this.0 as int, v0, 1_048_576), this.0 <= 1_048_575, v0 == self.0,
                    decreases 1_048_575 - this.0,
//@before 0 "this.0 += TOTAL;"
                    proof { lemma_cong_step(this.0 as int, v0, 1_048_576); }
//@end
//@endimpl
}

// ---- U24: i32, 24 bits ------------------------------------------------------------------
pub mod u24 {
    use super::*;
//@item file=dasp_sample/src/types.rs macro=new_sample_type arm=0 bind="T=U24;Rep=i32;EQ=8_388_608;MIN=0;MAX=16_777_215;TOTAL=16_777_216;rest=" kind=const name=MIN_REP
//@item file=dasp_sample/src/types.rs macro=new_sample_type arm=0 bind="T=U24;Rep=i32;EQ=8_388_608;MIN=0;MAX=16_777_215;TOTAL=16_777_216;rest=" kind=const name=MAX_REP
//@item file=dasp_sample/src/types.rs macro=new_sample_type arm=0 bind="T=U24;Rep=i32;EQ=8_388_608;MIN=0;MAX=16_777_215;TOTAL=16_777_216;rest=" kind=const name=TOTAL
//@struct file=dasp_sample/src/types.rs macro=new_sample_type arm=0 bind="T=U24;Rep=i32;EQ=8_388_608;MIN=0;MAX=16_777_215;TOTAL=16_777_216;rest=" name=U24

    pub open spec fn in_range(v: int) -> bool { 0 <= v <= 16_777_215 }

//@impl file=dasp_sample/src/types.rs macro=new_sample_type arm=0 bind="T=U24;Rep=i32;EQ=8_388_608;MIN=0;MAX=16_777_215;TOTAL=16_777_216;rest=" header="impl From<i32> for U24" as="impl U24"
//@fn file=dasp_sample/src/types.rs macro=new_sample_type arm=0 bind="T=U24;Rep=i32;EQ=8_388_608;MIN=0;MAX=16_777_215;TOTAL=16_777_216;rest=" in="impl:From<i32> for U24" name=from ret=r label=U24::from vis=pub
//@spec
        // conversion from the backing integer wraps modulo 2^24 into range, for EVERY value of i32
        ensures in_range(r.0 as int), congruent(r.0 as int, val as int, 16_777_216),
//@end
//@endimpl

//@impl file=dasp_sample/src/types.rs macro=new_sample_type arm=0 bind="T=U24;Rep=i32;EQ=8_388_608;MIN=0;MAX=16_777_215;TOTAL=16_777_216;rest=" header="impl U24"
//@fn file=dasp_sample/src/types.rs macro=new_sample_type arm=0 bind="T=U24;Rep=i32;EQ=8_388_608;MIN=0;MAX=16_777_215;TOTAL=16_777_216;rest=" in="impl:U24" name=new ret=r label=U24::new vis=pub
//@spec
        ensures r.is_some() == in_range(val as int), r.is_some() ==> r.unwrap().0 == val,
//@end
//@fn file=dasp_sample/src/types.rs macro=new_sample_type arm=0 bind="T=U24;Rep=i32;EQ=8_388_608;MIN=0;MAX=16_777_215;TOTAL=16_777_216;rest=" in="impl:U24" name=inner ret=r label=U24::inner vis=pub
//@spec
        ensures r == self.0,
//@end
//@fn file=dasp_sample/src/types.rs macro=new_sample_type arm=0 bind="T=U24;Rep=i32;EQ=8_388_608;MIN=0;MAX=16_777_215;TOTAL=16_777_216;rest=" in="impl:U24" name=wrap_overflow_once ret=r label=U24::wrap_overflow_once vis=pub
//@spec
        // within one TOTAL of the range (the case of +, - on in-range operands): one wrap suffices
        requires 0 - 16_777_216 <= self.0 <= 16_777_215 + 16_777_216,
        ensures in_range(r.0 as int), congruent(r.0 as int, self.0 as int, 16_777_216),
//@entry
        proof { lemma_cong_step(self.0 as int, self.0 as int, 16_777_216); assert(congruent(self.0 as int, self.0 as int, 16_777_216)); }
//@end
//@fn file=dasp_sample/src/types.rs macro=new_sample_type arm=0 bind="T=U24;Rep=i32;EQ=8_388_608;MIN=0;MAX=16_777_215;TOTAL=16_777_216;rest=" in="impl:U24" name=wrap_overflow ret=r label=U24::wrap_overflow rules=R-mutself vis=pub
//@spec
        ensures in_range(r.0 as int), congruent(r.0 as int, self.0 as int, 16_777_216),
//@entry
        let ghost v0 = self.0 as int;
        proof { assert(congruent(v0, v0, 16_777_216)); }
//@loop 0
                    invariant congruent(this.0 as int, v0, 16_777_216), v0 == self.0, this.0 <= v0, this.0 == v0 || this.0 >= 0,
                    decreases this.0 - (0),
//@before 0 "this.0 -= TOTAL;"
                    proof { lemma_cong_step(this.0 as int, v0, 16_777_216); }
//@loop 1
                    invariant congruent(this.0 as int, v0, 16_777_216), this.0 <= 16_777_215, v0 == self.0,
                    decreases 16_777_215 - this.0,
//@before 0 "this.0 += TOTAL;"
                    proof { lemma_cong_step(this.0 as int, v0, 16_777_216); }
//@end
//@endimpl
}

// ---- U48: i64, 48 bits ------------------------------------------------------------------
pub mod u48 {
    use super::*;
//@item file=dasp_sample/src/types.rs macro=new_sample_type arm=0 bind="T=U48;Rep=i64;EQ=140_737_488_355_328;MIN=0;MAX=281_474_976_710_655;TOTAL=281_474_976_710_656;rest=" kind=const name=MIN_REP
//@item file=dasp_sample/src/types.rs macro=new_sample_type arm=0 bind="T=U48;Rep=i64;EQ=140_737_488_355_328;MIN=0;MAX=281_474_976_710_655;TOTAL=281_474_976_710_656;rest=" kind=const name=MAX_REP
//@item file=dasp_sample/src/types.rs macro=new_sample_type arm=0 bind="T=U48;Rep=i64;EQ=140_737_488_355_328;MIN=0;MAX=281_474_976_710_655;TOTAL=281_474_976_710_656;rest=" kind=const name=TOTAL
//@struct file=dasp_sample/src/types.rs macro=new_sample_type arm=0 bind="T=U48;Rep=i64;EQ=140_737_488_355_328;MIN=0;MAX=281_474_976_710_655;TOTAL=281_474_976_710_656;rest=" name=U48

    pub open spec fn in_range(v: int) -> bool { 0 <= v <= 281_474_976_710_655 }

//@impl file=dasp_sample/src/types.rs macro=new_sample_type arm=0 bind="T=U48;Rep=i64;EQ=140_737_488_355_328;MIN=0;MAX=281_474_976_710_655;TOTAL=281_474_976_710_656;rest=" header="impl From<i64> for U48" as="impl U48"
//@fn file=dasp_sample/src/types.rs macro=new_sample_type arm=0 bind="T=U48;Rep=i64;EQ=140_737_488_355_328;MIN=0;MAX=281_474_976_710_655;TOTAL=281_474_976_710_656;rest=" in="impl:From<i64> for U48" name=from ret=r label=U48::from vis=pub
//@spec
        // conversion from the backing integer wraps modulo 2^48 into range, for EVERY value of i64
        ensures in_range(r.0 as int), congruent(r.0 as int, val as int, 281_474_976_710_656),
//@end
//@endimpl

//@impl file=dasp_sample/src/types.rs macro=new_sample_type arm=0 bind="T=U48;Rep=i64;EQ=140_737_488_355_328;MIN=0;MAX=281_474_976_710_655;TOTAL=281_474_976_710_656;rest=" header="impl U48"
//@fn file=dasp_sample/src/types.rs macro=new_sample_type arm=0 bind="T=U48;Rep=i64;EQ=140_737_488_355_328;MIN=0;MAX=281_474_976_710_655;TOTAL=281_474_976_710_656;rest=" in="impl:U48" name=new ret=r label=U48::new vis=pub
//@spec
        ensures r.is_some() == in_range(val as int), r.is_some() ==> r.unwrap().0 == val,
//@end
//@fn file=dasp_sample/src/types.rs macro=new_sample_type arm=0 bind="T=U48;Rep=i64;EQ=140_737_488_355_328;MIN=0;MAX=281_474_976_710_655;TOTAL=281_474_976_710_656;rest=" in="impl:U48" name=inner ret=r label=U48::inner vis=pub
//@spec
        ensures r == self.0,
//@end
//@fn file=dasp_sample/src/types.rs macro=new_sample_type arm=0 bind="T=U48;Rep=i64;EQ=140_737_488_355_328;MIN=0;MAX=281_474_976_710_655;TOTAL=281_474_976_710_656;rest=" in="impl:U48" name=wrap_overflow_once ret=r label=U48::wrap_overflow_once vis=pub
//@spec
        // within one TOTAL of the range (the case of +, - on in-range operands): one wrap suffices
        requires 0 - 281_474_976_710_656 <= self.0 <= 281_474_976_710_655 + 281_474_976_710_656,
        ensures in_range(r.0 as int), congruent(r.0 as int, self.0 as int, 281_474_976_710_656),
//@entry
        proof { lemma_cong_step(self.0 as int, self.0 as int, 281_474_976_710_656); assert(congruent(self.0 as int, self.0 as int, 281_474_976_710_656)); }
//@end
//@fn file=dasp_sample/src/types.rs macro=new_sample_type arm=0 bind="T=U48;Rep=i64;EQ=140_737_488_355_328;MIN=0;MAX=281_474_976_710_655;TOTAL=281_474_976_710_656;rest=" in="impl:U48" name=wrap_overflow ret=r label=U48::wrap_overflow rules=R-mutself vis=pub
//@spec
        ensures in_range(r.0 as int), congruent(r.0 as int, self.0 as int, 281_474_976_710_656),
//@entry
        let ghost v0 = self.0 as int;
        proof { assert(congruent(v0, v0, 281_474_976_710_656)); }
//@loop 0
                    invariant congruent(this.0 as int, v0, 281_474_976_710_656), v0 == self.0, this.0 <= v0, this.0 == v0 || this.0 >= 0,
                    decreases this.0 - (0),
//@before 0 "this.0 -= TOTAL;"
                    proof { lemma_cong_step(this.0 as int, v0, 281_474_976_710_656); }
//@loop 1
                    invariant congruent(this.0 as int, v0, 281_474_976_710_656), this.0 <= 281_474_976_710_655, v0 == self.0,
                    decreases 281_474_976_710_655 - this.0,
//@before 0 "this.0 += TOTAL;"
                    proof { lemma_cong_step(this.0 as int, v0, 281_474_976_710_656); }
//@end
//@endimpl
}

} // verus!
fn main() {}
