// Unit ring_buffer (C06): dasp_ring_buffer::{Fixed, Bounded, DrainBounded} and the Slice impls.
// Everything between //@ directives is extracted from /repo on every run; the rest is the
// contract text (trusted prelude, abstract views, lemmas).
use vstd::prelude::*;
use vstd::arithmetic::div_mod::*;
use core::mem;
verus! {

// ---------------------------------------------------------------------------------------------
// arithmetic lemmas (proved, not assumed)
// ---------------------------------------------------------------------------------------------

/// wrapped index: position of logical element i in a ring of n slots starting at `start`
pub open spec fn widx(start: int, i: int, n: int) -> int { (start + i) % n }

pub proof fn lemma_mod_wrap(x: int, n: int)
    requires 0 <= x < 2 * n, n > 0
    ensures x % n == (if x < n { x } else { x - n })
{
    if x < n { lemma_small_mod(x as nat, n as nat); }
    else {
        lemma_mod_sub_multiples_vanish(x, n);
        lemma_small_mod((x - n) as nat, n as nat);
    }
}

pub broadcast proof fn lemma_widx(start: int, i: int, n: int)
    requires 0 <= start < n, 0 <= i < n
    ensures #[trigger] widx(start, i, n) == (if start + i < n { start + i } else { start + i - n })
{
    lemma_mod_wrap(start + i, n);
}

/// (first + index) % n  ==  widx(first, index % n, n)
pub proof fn lemma_widx_any(first: int, index: int, n: int)
    requires 0 <= first < n, 0 <= index
    ensures (first + index) % n == widx(first, index % n, n), 0 <= index % n < n
{
    lemma_add_mod_noop_right(first, index, n);
    lemma_mod_bound(index, n);
}

// T5 (size assumption A-len): a slice of a non-zero-sized element type has at most isize::MAX
// elements (allocation limit).  Stated as an axiom; used only for `start + len` / `first + 1`.
pub broadcast axiom fn ax_slice_len<T>(s: &[T])
    ensures #[trigger] s@.len() <= isize::MAX;

// ---------------------------------------------------------------------------------------------
// trusted prelude
// ---------------------------------------------------------------------------------------------

pub assume_specification<T> [core::mem::replace::<T>] (dest: &mut T, src: T) -> (r: T)
    ensures r == *old(dest), *final(dest) == src;

// R-unchecked: `x.get_unchecked(i)` is rewritten to `get_unchecked_(x, i)`; the bound becomes a
// proof obligation at every call site ("never reads or writes outside the backing slice").
#[verifier::external_body]
fn get_unchecked_<T>(s: &[T], i: usize) -> (r: &T)
    requires i < s@.len()
    ensures *r == s@[i as int]
{ unsafe { s.get_unchecked(i) } }

#[verifier::external_body]
fn get_unchecked_mut_<T>(s: &mut [T], i: usize) -> (r: &mut T)
    requires i < old(s)@.len()
    ensures *r == (*old(s))@[i as int], (*final(s))@ == (*old(s))@.update(i as int, *final(r))
{ unsafe { s.get_unchecked_mut(i) } }

// R-ptr: ptr::write / ptr::read through a reference to a Copy element (no drop glue): plain
// store / load.
#[verifier::external_body]
fn ptr_write_<T>(dest: &mut T, v: T)
    ensures *final(dest) == v
{ unsafe { core::ptr::write(dest, v) } }

#[verifier::external_body]
fn ptr_read_<T: Copy>(src: &mut T) -> (r: T)
    ensures r == *old(src), *final(src) == *old(src)
{ unsafe { core::ptr::read(src) } }

// R-assert: `assert!(c)` -> `assert_or_panic_(c)`: returns only if c holds (panics otherwise).
#[verifier::external_body]
fn assert_or_panic_(c: bool)
    ensures c
{ assert!(c) }

// Trait contracts (the repository's traits carry no specification; `view` is the abstract content).
pub trait Slice {
    type Element;
    spec fn view(&self) -> Seq<Self::Element>;
    fn slice(&self) -> (r: &[Self::Element])
        ensures r@ == self.view();
}

pub trait SliceMut: Slice {
    fn slice_mut(&mut self) -> (r: &mut [Self::Element])
        ensures r@ == old(self).view(), final(self).view() == (*final(r))@;
}

// ---------------------------------------------------------------------------------------------
// Fixed
// ---------------------------------------------------------------------------------------------

//@struct file=dasp_ring_buffer/src/lib.rs name=Fixed

//@impl file=dasp_ring_buffer/src/lib.rs header="impl<S> Fixed<S>"
    pub open spec fn n(&self) -> int { self.data.view().len() as int }
    /// representation invariant (N >= 1 follows from first < N)
    pub open spec fn wf(&self) -> bool {
        self.first < self.n() <= isize::MAX
    }
    /// abstract view: the N elements oldest-first
    pub open spec fn seq(&self) -> Seq<S::Element> {
        Seq::new(self.n() as nat, |i: int| self.data.view()[widx(self.first as int, i, self.n())])
    }

//@fn file=dasp_ring_buffer/src/lib.rs in="impl:<S> Fixed<S>" name=len ret=r label=Fixed::len
//@spec
        ensures r == self.n(),
//@end

//@fn file=dasp_ring_buffer/src/lib.rs in="impl:<S> Fixed<S>" name=push ret=r label=Fixed::push
//@spec
        requires old(self).wf(),
        ensures
            final(self).wf(),
            final(self).n() == old(self).n(),
            r == old(self).seq()[0],
            final(self).seq() =~= old(self).seq().drop_first().push(item),
//@entry
        broadcast use lemma_widx;
//@end

//@fn file=dasp_ring_buffer/src/lib.rs in="impl:<S> Fixed<S>" name=get ret=r label=Fixed::get
//@spec
        requires self.wf(),
        ensures *r == self.seq()[(index as int) % self.n()],
//@entry
        proof { lemma_widx_any(self.first as int, index as int, self.n()); }
//@end

//@fn file=dasp_ring_buffer/src/lib.rs in="impl:<S> Fixed<S>" name=get_mut ret=r label=Fixed::get_mut
//@spec
        requires old(self).wf(),
        ensures
            *r == old(self).seq()[(index as int) % old(self).n()],
            final(self).wf(),
            final(self).first == old(self).first,
            final(self).seq() =~= old(self).seq().update((index as int) % old(self).n(), *final(r)),
//@entry
        broadcast use lemma_widx;
        proof { lemma_widx_any(self.first as int, index as int, self.n()); }
//@end

//@fn file=dasp_ring_buffer/src/lib.rs in="impl:<S> Fixed<S>" name=set_first label=Fixed::set_first
//@spec
        requires old(self).wf(),
        ensures
            final(self).wf(),
            final(self).data == old(self).data,
            final(self).first == (index as int) % old(self).n(),
//@entry
        proof { lemma_mod_bound(index as int, self.n()); }
//@end

//@fn file=dasp_ring_buffer/src/lib.rs in="impl:<S> Fixed<S>" name=slices ret=r label=Fixed::slices
//@spec
        requires self.wf(),
        ensures r.0@ + r.1@ =~= self.seq(),
            r.0@.len() == self.n() - self.first,
//@entry
        broadcast use lemma_widx;
//@end

//@fn file=dasp_ring_buffer/src/lib.rs in="impl:<S> Fixed<S>" name=slices_mut ret=r label=Fixed::slices_mut
//@spec
        requires old(self).wf(),
        ensures r.0@ + r.1@ =~= old(self).seq(),
            r.0@.len() == old(self).n() - old(self).first,
            final(self).first == old(self).first,
//@entry
        broadcast use lemma_widx;
//@end

//@fn file=dasp_ring_buffer/src/lib.rs in="impl:<S> Fixed<S>" name=from_raw_parts ret=r rules=R-assert label=Fixed::from_raw_parts
//@spec
        ensures r.wf(), r.first == first, r.data == data,
//@entry
        broadcast use ax_slice_len;
//@end

//@fn file=dasp_ring_buffer/src/lib.rs in="impl:<S> Fixed<S>" name=into_raw_parts ret=r label=Fixed::into_raw_parts
//@spec
        ensures r.0 == self.first, r.1 == self.data,
//@end

//@endimpl

// `impl From<S> for Fixed<S>` / `Index` / `IndexMut`: std traits cannot carry a contract in
// Verus, so their method bodies are extracted as inherent methods (R-inherent).
//@impl file=dasp_ring_buffer/src/lib.rs header="impl<S> From<S> for Fixed<S>" as="impl<S> Fixed<S>"
//@fn file=dasp_ring_buffer/src/lib.rs in="impl:<S> From<S> for Fixed<S>" name=from ret=r label=Fixed::from
//@spec
        ensures r.wf(), r.first == 0, r.data == data, r.seq() =~= data.view(),
//@entry
        broadcast use lemma_widx;
//@end
//@endimpl

//@impl file=dasp_ring_buffer/src/lib.rs header="impl<S> Index<usize> for Fixed<S>" as="impl<S> Fixed<S>"
//@fn file=dasp_ring_buffer/src/lib.rs in="impl:<S> Index<usize> for Fixed<S>" name=index ret=r label=Fixed::index rules=R-subst:Self::Output=>S::Element
//@spec
        requires self.wf(),
        ensures *r == self.seq()[(index as int) % self.n()],
//@end
//@endimpl

//@impl file=dasp_ring_buffer/src/lib.rs header="impl<S> IndexMut<usize> for Fixed<S>" as="impl<S> Fixed<S>"
//@fn file=dasp_ring_buffer/src/lib.rs in="impl:<S> IndexMut<usize> for Fixed<S>" name=index_mut ret=r label=Fixed::index_mut rules=R-subst:Self::Output=>S::Element
//@spec
        requires old(self).wf(),
        ensures
            *r == old(self).seq()[(index as int) % old(self).n()],
            final(self).wf(),
            final(self).seq() =~= old(self).seq().update((index as int) % old(self).n(), *final(r)),
//@end
//@endimpl

// ---------------------------------------------------------------------------------------------
// Bounded
// ---------------------------------------------------------------------------------------------

//@struct file=dasp_ring_buffer/src/lib.rs name=Bounded
//@struct file=dasp_ring_buffer/src/lib.rs name=DrainBounded

//@impl file=dasp_ring_buffer/src/lib.rs header="impl<S> Bounded<S>"
    pub open spec fn cap(&self) -> int { self.data.view().len() as int }
    pub open spec fn wf(&self) -> bool {
        self.start < self.cap() && self.len <= self.cap() && self.cap() <= isize::MAX
    }
    /// abstract view: the live elements oldest-first
    pub open spec fn seq(&self) -> Seq<S::Element> {
        Seq::new(self.len as nat, |i: int| self.data.view()[widx(self.start as int, i, self.cap())])
    }

//@fn file=dasp_ring_buffer/src/lib.rs in="impl:<S> Bounded<S>" name=from_full ret=r label=Bounded::from_full
//@spec
        ensures r.wf(), r.seq() =~= data.view(), r.data == data,
//@entry
        broadcast use lemma_widx;
//@end

//@fn file=dasp_ring_buffer/src/lib.rs in="impl:<S> Bounded<S>" name=max_len ret=r label=Bounded::max_len
//@spec
        ensures r == self.cap(),
//@end

//@fn file=dasp_ring_buffer/src/lib.rs in="impl:<S> Bounded<S>" name=len ret=r label=Bounded::len
//@spec
        ensures r == self.seq().len(),
//@end

//@fn file=dasp_ring_buffer/src/lib.rs in="impl:<S> Bounded<S>" name=is_empty ret=r label=Bounded::is_empty
//@spec
        ensures r == (self.seq().len() == 0),
//@end

//@fn file=dasp_ring_buffer/src/lib.rs in="impl:<S> Bounded<S>" name=is_full ret=r label=Bounded::is_full
//@spec
        ensures r == (self.seq().len() == self.cap()),
//@end

//@fn file=dasp_ring_buffer/src/lib.rs in="impl:<S> Bounded<S>" name=slices ret=r label=Bounded::slices
//@spec
        requires self.wf(),
        ensures r.0@ + r.1@ =~= self.seq(),
//@entry
        broadcast use lemma_widx;
//@end

//@fn file=dasp_ring_buffer/src/lib.rs in="impl:<S> Bounded<S>" name=slices_mut ret=r label=Bounded::slices_mut
//@spec
        requires old(self).wf(),
        ensures r.0@ + r.1@ =~= old(self).seq(),
            final(self).start == old(self).start, final(self).len == old(self).len,
//@entry
        broadcast use lemma_widx;
//@end

//@fn file=dasp_ring_buffer/src/lib.rs in="impl:<S> Bounded<S>" name=get ret=r label=Bounded::get
//@spec
        requires self.wf(),
        ensures
            r.is_some() == (index < self.seq().len()),
            r.is_some() ==> *r.unwrap() == self.seq()[index as int],
//@entry
        broadcast use lemma_widx;
        proof { if index < self.len { lemma_widx(self.start as int, index as int, self.cap()); } }
//@end

//@fn file=dasp_ring_buffer/src/lib.rs in="impl:<S> Bounded<S>" name=get_mut ret=r label=Bounded::get_mut
//@spec
        requires old(self).wf(),
        ensures
            r.is_some() == (index < old(self).seq().len()),
            final(self).wf(),
            r.is_some() ==> *r.unwrap() == old(self).seq()[index as int]
                && final(self).seq() =~= old(self).seq().update(index as int, *final(r.unwrap())),
            r.is_none() ==> final(self).seq() =~= old(self).seq(),
//@entry
        broadcast use lemma_widx;
        proof { if index < self.len { lemma_widx(self.start as int, index as int, self.cap()); } }
//@end

//@fn file=dasp_ring_buffer/src/lib.rs in="impl:<S> Bounded<S>" name=push ret=r label=Bounded::push
//@spec
        requires old(self).wf(),
        ensures
            final(self).wf(),
            final(self).cap() == old(self).cap(),
            old(self).seq().len() < old(self).cap() ==>
                r is None && final(self).seq() =~= old(self).seq().push(elem),
            old(self).seq().len() == old(self).cap() ==>
                r == Some(old(self).seq()[0]) && final(self).seq() =~= old(self).seq().drop_first().push(elem),
//@entry
        broadcast use lemma_widx;
        proof { if self.len < self.cap() { lemma_widx(self.start as int, self.len as int, self.cap()); } }
//@end

//@fn file=dasp_ring_buffer/src/lib.rs in="impl:<S> Bounded<S>" name=pop ret=r label=Bounded::pop
//@spec
        requires old(self).wf(),
        ensures
            final(self).wf(),
            final(self).cap() == old(self).cap(),
            old(self).seq().len() == 0 ==> r is None && final(self).seq() =~= old(self).seq(),
            old(self).seq().len() > 0 ==>
                r == Some(old(self).seq()[0]) && final(self).seq() =~= old(self).seq().drop_first(),
//@entry
        broadcast use lemma_widx;
//@end

//@fn file=dasp_ring_buffer/src/lib.rs in="impl:<S> Bounded<S>" name=drain ret=r label=Bounded::drain
//@spec
        ensures *r.bounded == *old(self), *final(r.bounded) == *final(self),
//@end

//@fn file=dasp_ring_buffer/src/lib.rs in="impl:<S> Bounded<S>" name=from_raw_parts ret=r rules=R-assert label=Bounded::from_raw_parts
//@spec
        ensures r.wf(), r.start == start, r.len == len, r.data == data,
//@entry
        broadcast use ax_slice_len;
//@end

//@endimpl

//@impl file=dasp_ring_buffer/src/lib.rs header="impl<S> From<S> for Bounded<S>" as="impl<S> Bounded<S>"
//@fn file=dasp_ring_buffer/src/lib.rs in="impl:<S> From<S> for Bounded<S>" name=from ret=r label=Bounded::from
//@spec
        ensures r.wf(), r.seq() =~= Seq::<S::Element>::empty(), r.data == data,
//@end
//@endimpl

//@impl file=dasp_ring_buffer/src/lib.rs header="impl<S> Index<usize> for Bounded<S>" as="impl<S> Bounded<S>"
//@fn file=dasp_ring_buffer/src/lib.rs in="impl:<S> Index<usize> for Bounded<S>" name=index ret=r label=Bounded::index rules=R-subst:Self::Output=>S::Element
//@spec
        requires self.wf(), index < self.seq().len(),   // out of range: documented panic ("index out of range")
        ensures *r == self.seq()[index as int],
//@end
//@endimpl

//@impl file=dasp_ring_buffer/src/lib.rs header="impl<S> IndexMut<usize> for Bounded<S>" as="impl<S> Bounded<S>"
//@fn file=dasp_ring_buffer/src/lib.rs in="impl:<S> IndexMut<usize> for Bounded<S>" name=index_mut ret=r label=Bounded::index_mut rules=R-subst:Self::Output=>S::Element
//@spec
        requires old(self).wf(), index < old(self).seq().len(),
        ensures *r == old(self).seq()[index as int],
            final(self).wf(),
            final(self).seq() =~= old(self).seq().update(index as int, *final(r)),
//@end
//@endimpl

//@impl file=dasp_ring_buffer/src/lib.rs header="impl<'a, S> Iterator for DrainBounded<'a, S>" as="impl<'a, S> DrainBounded<'a, S>"
//@fn file=dasp_ring_buffer/src/lib.rs in="impl:<'a, S> Iterator for DrainBounded<'a, S>" name=next ret=r label=DrainBounded::next rules=R-subst:Self::Item=>S::Element
//@spec
        requires old(self).bounded.wf(),
        ensures
            final(self).bounded.wf(),
            final(self).bounded.cap() == old(self).bounded.cap(),
            old(self).bounded.seq().len() == 0 ==> r is None && final(self).bounded.seq() =~= old(self).bounded.seq(),
            old(self).bounded.seq().len() > 0 ==>
                r == Some(old(self).bounded.seq()[0]) && final(self).bounded.seq() =~= old(self).bounded.seq().drop_first(),
//@end
//@fn file=dasp_ring_buffer/src/lib.rs in="impl:<'a, S> Iterator for DrainBounded<'a, S>" name=size_hint ret=r label=DrainBounded::size_hint
//@spec
        ensures r.0 == old(self.bounded).seq().len(), r.1 == Some(old(self.bounded).seq().len() as usize),
//@end
//@endimpl

//@impl file=dasp_ring_buffer/src/lib.rs header="impl<'a, S> ExactSizeIterator for DrainBounded<'a, S>" as="impl<'a, S> DrainBounded<'a, S>"
//@fn file=dasp_ring_buffer/src/lib.rs in="impl:<'a, S> ExactSizeIterator for DrainBounded<'a, S>" name=len ret=r label=DrainBounded::len
//@spec
        ensures r == old(self.bounded).seq().len(),
//@end
//@endimpl

// ---------------------------------------------------------------------------------------------
// The Slice / SliceMut impls of the repository, verified against the trait contract
// ---------------------------------------------------------------------------------------------

//@impl file=dasp_ring_buffer/src/lib.rs header="impl<'a, T> Slice for &'a [T]"
    type Element = T;
    open spec fn view(&self) -> Seq<T> { (**self)@ }
//@fn file=dasp_ring_buffer/src/lib.rs in="impl:<'a, T> Slice for &'a [T]" name=slice label=Slice(&[T])::slice
//@end
//@endimpl

//@impl file=dasp_ring_buffer/src/lib.rs header="impl<'a, T> Slice for &'a mut [T]"
    type Element = T;
    open spec fn view(&self) -> Seq<T> { (**self)@ }
//@fn file=dasp_ring_buffer/src/lib.rs in="impl:<'a, T> Slice for &'a mut [T]" name=slice label=Slice(&mut[T])::slice
//@end
//@endimpl

//@impl file=dasp_ring_buffer/src/lib.rs header="impl<'a, T> SliceMut for &'a mut [T]"
//@fn file=dasp_ring_buffer/src/lib.rs in="impl:<'a, T> SliceMut for &'a mut [T]" name=slice_mut label=SliceMut(&mut[T])::slice_mut
//@end
//@endimpl

// ---------------------------------------------------------------------------------------------
// Property lemmas over the contracts
// ---------------------------------------------------------------------------------------------

/// the ideal length-N delay line: state after pushing the items of `xs` (oldest first)
pub open spec fn pushes<T>(s: Seq<T>, xs: Seq<T>) -> Seq<T>
    decreases xs.len()
{
    if xs.len() == 0 { s } else { pushes(s.drop_first().push(xs[0]), xs.drop_first()) }
}

/// outputs returned by those pushes
pub open spec fn push_outputs<T>(s: Seq<T>, xs: Seq<T>) -> Seq<T>
    decreases xs.len()
{
    if xs.len() == 0 { Seq::empty() } else { seq![s[0]] + push_outputs(s.drop_first().push(xs[0]), xs.drop_first()) }
}

/// Delay line (C06): over the Fixed::push contract (r == seq[0], seq' == seq.drop_first().push(x)),
/// the k-th push returns the initial content for k < N and the value pushed N pushes earlier otherwise.
pub proof fn lemma_delay_line<T>(s: Seq<T>, xs: Seq<T>, k: int)
    requires s.len() >= 1, 0 <= k < xs.len(),
    ensures
        push_outputs(s, xs).len() == xs.len(),
        push_outputs(s, xs)[k] == (if k < s.len() { s[k] } else { xs[k - s.len()] }),
        pushes(s, xs).len() == s.len(),
    decreases xs.len()
{
    let s1 = s.drop_first().push(xs[0]);
    let xs1 = xs.drop_first();
    lemma_outputs_len(s, xs);
    lemma_pushes_len(s, xs);
    if k == 0 {
    } else {
        lemma_delay_line(s1, xs1, k - 1);
        assert(push_outputs(s, xs)[k] == push_outputs(s1, xs1)[k - 1]);
        if k - 1 < s1.len() {
            if k < s.len() { assert(s1[k - 1] == s[k]); } else { assert(s1[k - 1] == xs[0]); }
        } else {
            assert(xs1[k - 1 - s1.len()] == xs[k - s.len()]);
        }
    }
}

pub proof fn lemma_outputs_len<T>(s: Seq<T>, xs: Seq<T>)
    requires s.len() >= 1
    ensures push_outputs(s, xs).len() == xs.len()
    decreases xs.len()
{
    if xs.len() > 0 { lemma_outputs_len(s.drop_first().push(xs[0]), xs.drop_first()); }
}

pub proof fn lemma_pushes_len<T>(s: Seq<T>, xs: Seq<T>)
    requires s.len() >= 1
    ensures pushes(s, xs).len() == s.len()
    decreases xs.len()
{
    if xs.len() > 0 { lemma_pushes_len(s.drop_first().push(xs[0]), xs.drop_first()); }
}

} // verus!
fn main() {}
