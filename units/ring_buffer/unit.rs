// Unit ring_buffer (C06): dasp_ring_buffer::{Fixed, Bounded, DrainBounded} and the Slice impls.
// Everything between //@ directives is extracted from /repo on every run; the rest is the
// contract text (trusted prelude, abstract views, lemmas).
use vstd::prelude::*;
use vstd::arithmetic::div_mod::*;
use core::mem;
verus! {
//@include _shared/std_specs.rs
//@include _shared/rb_prelude.rs
//@include _shared/rb_fixed.rs
//@include _shared/rb_bounded.rs
// ---------------------------------------------------------------------------------------------
// The Slice / SliceMut impls of the repository, verified against the trait contract
// ---------------------------------------------------------------------------------------------

//@impl file=dasp_ring_buffer/src/lib.rs header="impl<'a, T> Slice for &'a [T]"
    type Element = T;
    open spec fn view(&self) -> Seq<T> { (**self)@ }
//@fn file=dasp_ring_buffer/src/lib.rs in="impl:<'a, T> Slice for &'a [T]" name=slice label=Slice(&[T])::slice
//@end
//@endimpl

//@impl file=dasp_ring_buffer/src/lib.rs header="impl<'a, T> Slice for &'a mut [T]"
    type Element = T;
    open spec fn view(&self) -> Seq<T> { (**self)@ }
//@fn file=dasp_ring_buffer/src/lib.rs in="impl:<'a, T> Slice for &'a mut [T]" name=slice label=Slice(&mut[T])::slice
//@end
//@endimpl

//@impl file=dasp_ring_buffer/src/lib.rs header="impl<'a, T> SliceMut for &'a mut [T]"
//@fn file=dasp_ring_buffer/src/lib.rs in="impl:<'a, T> SliceMut for &'a mut [T]" name=slice_mut label=SliceMut(&mut[T])::slice_mut
//@end
//@endimpl

// ---------------------------------------------------------------------------------------------
// Property lemmas over the contracts
// ---------------------------------------------------------------------------------------------

/// the ideal length-N delay line: state after pushing the items of `xs` (oldest first)
pub open spec fn pushes<T>(s: Seq<T>, xs: Seq<T>) -> Seq<T>
    decreases xs.len()
{
    if xs.len() == 0 { s } else { pushes(s.drop_first().push(xs[0]), xs.drop_first()) }
}

/// outputs returned by those pushes
pub open spec fn push_outputs<T>(s: Seq<T>, xs: Seq<T>) -> Seq<T>
    decreases xs.len()
{
    if xs.len() == 0 { Seq::empty() } else { seq![s[0]] + push_outputs(s.drop_first().push(xs[0]), xs.drop_first()) }
}

/// Delay line (C06): over the Fixed::push contract (r == seq[0], seq' == seq.drop_first().push(x)),
/// the k-th push returns the initial content for k < N and the value pushed N pushes earlier otherwise.
pub proof fn lemma_delay_line<T>(s: Seq<T>, xs: Seq<T>, k: int)
    requires s.len() >= 1, 0 <= k < xs.len(),
    ensures
        push_outputs(s, xs).len() == xs.len(),
        push_outputs(s, xs)[k] == (if k < s.len() { s[k] } else { xs[k - s.len()] }),
        pushes(s, xs).len() == s.len(),
    decreases xs.len()
{
    let s1 = s.drop_first().push(xs[0]);
    let xs1 = xs.drop_first();
    lemma_outputs_len(s, xs);
    lemma_pushes_len(s, xs);
    if k == 0 {
    } else {
        lemma_delay_line(s1, xs1, k - 1);
        assert(push_outputs(s, xs)[k] == push_outputs(s1, xs1)[k - 1]);
        if k - 1 < s1.len() {
            if k < s.len() { assert(s1[k - 1] == s[k]); } else { assert(s1[k - 1] == xs[0]); }
        } else {
            assert(xs1[k - 1 - s1.len()] == xs[k - s.len()]);
        }
    }
}

pub proof fn lemma_outputs_len<T>(s: Seq<T>, xs: Seq<T>)
    requires s.len() >= 1
    ensures push_outputs(s, xs).len() == xs.len()
    decreases xs.len()
{
    if xs.len() > 0 { lemma_outputs_len(s.drop_first().push(xs[0]), xs.drop_first()); }
}

pub proof fn lemma_pushes_len<T>(s: Seq<T>, xs: Seq<T>)
    requires s.len() >= 1
    ensures pushes(s, xs).len() == s.len()
    decreases xs.len()
{
    if xs.len() > 0 { lemma_pushes_len(s.drop_first().push(xs[0]), xs.drop_first()); }
}

} // verus!
fn main() {}
