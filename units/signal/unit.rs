// Unit signal (C04, C05): the Signal adaptors of dasp_signal, verified against a contract on the
// trait `Signal` itself (a state machine), so that every adaptor is proved for ARBITRARY sources
// meeting the contract and itself meets it: any finite nesting is covered by composition.
use vstd::prelude::*;
use vstd::std_specs::ops::*;
use vstd::std_specs::cmp::*;
verus! {

//@include _shared/std_specs.rs
//@include _shared/signal_prelude.rs

// ---------------------------------------------------------------------------------------------
// extracted structs
// ---------------------------------------------------------------------------------------------
//@struct file=dasp_signal/src/lib.rs name=Equilibrium
//@struct file=dasp_signal/src/lib.rs name=Gen
//@struct file=dasp_signal/src/lib.rs name=GenMut
//@struct file=dasp_signal/src/lib.rs name=Map
//@struct file=dasp_signal/src/lib.rs name=ZipMap
//@struct file=dasp_signal/src/lib.rs name=FromIterator
//@struct file=dasp_signal/src/lib.rs name=FromInterleavedSamplesIterator
//@struct file=dasp_signal/src/lib.rs name=AddAmp
//@struct file=dasp_signal/src/lib.rs name=MulAmp
//@struct file=dasp_signal/src/lib.rs name=OffsetAmp
//@struct file=dasp_signal/src/lib.rs name=ScaleAmp
//@struct file=dasp_signal/src/lib.rs name=OffsetAmpPerChannel
//@struct file=dasp_signal/src/lib.rs name=ScaleAmpPerChannel
//@struct file=dasp_signal/src/lib.rs name=Delay
//@struct file=dasp_signal/src/lib.rs name=Inspect
//@struct file=dasp_signal/src/lib.rs name=UntilExhausted
//@struct file=dasp_signal/src/lib.rs name=Take
//@struct file=dasp_signal/src/lib.rs name=ClipAmp
//@struct file=dasp_signal/src/lib.rs name=IntoInterleavedSamples
//@struct file=dasp_signal/src/lib.rs name=IntoInterleavedSamplesIterator

// ---------------------------------------------------------------------------------------------
// &mut S : "borrowed signals resume exactly where an adaptor left off"
// ---------------------------------------------------------------------------------------------
//@impl file=dasp_signal/src/lib.rs header="impl<'a, S> Signal for &'a mut S"
//@item file=dasp_signal/src/lib.rs in="impl:<'a, S> Signal for &'a mut S" kind=type name=Frame
    type State = S::State;
    type Cfg = S::Cfg;
    open spec fn st(&self) -> Self::State { (**self).st() }
    open spec fn cfg(&self) -> Self::Cfg { (**self).cfg() }
    open spec fn inv(&self) -> bool { (**self).inv() }
    open spec fn trans(c: Self::Cfg, s: Self::State, f: Self::Frame, s2: Self::State) -> bool { S::trans(c, s, f, s2) }
    open spec fn exh(s: Self::State) -> bool { S::exh(s) }
//@fn file=dasp_signal/src/lib.rs in="impl:<'a, S> Signal for &'a mut S" name=next label=RefMut::next
//@end
//@fn file=dasp_signal/src/lib.rs in="impl:<'a, S> Signal for &'a mut S" name=is_exhausted label=RefMut::is_exhausted
//@end
//@endimpl

// ---------------------------------------------------------------------------------------------
// sources
// ---------------------------------------------------------------------------------------------
//@impl file=dasp_signal/src/lib.rs header="impl<I> Signal for FromIterator<I>"
//@item file=dasp_signal/src/lib.rs in="impl:<I> Signal for FromIterator<I>" kind=type name=Frame
    /// (iterator state, one-frame look-ahead)
    type State = (I::ISt, Option<I::Item>);
    type Cfg = ();
    open spec fn st(&self) -> Self::State { (self.iter.ist(), self.next) }
    open spec fn cfg(&self) -> Self::Cfg { () }
    open spec fn inv(&self) -> bool { true }
    open spec fn trans(c: Self::Cfg, s: Self::State, f: Self::Frame, s2: Self::State) -> bool {
        match s.1 {
            // a frame is pending: yield it and pull exactly one more item
            Some(x) => f == x && s2 == (I::inext(s.0).1, I::inext(s.0).0),
            // exhausted: silent, state is a fixpoint, the iterator is never touched again
            None => f == <I::Item as Frame>::equilibrium_spec() && s2 == s,
        }
    }
    open spec fn exh(s: Self::State) -> bool { s.1 is None }
//@fn file=dasp_signal/src/lib.rs in="impl:<I> Signal for FromIterator<I>" name=next label=FromIterator::next rules=R-assocconst
//@end
//@fn file=dasp_signal/src/lib.rs in="impl:<I> Signal for FromIterator<I>" name=is_exhausted label=FromIterator::is_exhausted
//@end
//@endimpl

//@impl file=dasp_signal/src/lib.rs header="impl<I, F> Signal for FromInterleavedSamplesIterator<I, F>"
//@item file=dasp_signal/src/lib.rs in="impl:<I, F> Signal for FromInterleavedSamplesIterator<I, F>" kind=type name=Frame
    type State = (I::ISt, Option<F>);
    type Cfg = ();
    open spec fn st(&self) -> Self::State { (self.samples.ist(), self.next) }
    open spec fn cfg(&self) -> Self::Cfg { () }
    open spec fn inv(&self) -> bool { true }
    open spec fn trans(c: Self::Cfg, s: Self::State, f: Self::Frame, s2: Self::State) -> bool {
        match s.1 {
            Some(x) => f == x
                && s2.0 == take_n::<I>(s.0, F::nch()).1
                // the next frame exists iff N further samples were available (a trailing partial frame is dropped)
                && (s2.1.is_some() == (take_n::<I>(s.0, F::nch()).0.len() == F::nch()))
                && (s2.1.is_some() ==> forall|i: int| 0 <= i < F::nch() ==>
                        #[trigger] s2.1.unwrap().ch(i) == take_n::<I>(s.0, F::nch()).0[i]),
            None => f == F::equilibrium_spec() && s2 == s,
        }
    }
    open spec fn exh(s: Self::State) -> bool { s.1 is None }
//@fn file=dasp_signal/src/lib.rs in="impl:<I, F> Signal for FromInterleavedSamplesIterator<I, F>" name=next label=FromInterleavedSamplesIterator::next rules=R-assocconst
//@end
//@fn file=dasp_signal/src/lib.rs in="impl:<I, F> Signal for FromInterleavedSamplesIterator<I, F>" name=is_exhausted label=FromInterleavedSamplesIterator::is_exhausted
//@end
//@endimpl

// ---------------------------------------------------------------------------------------------
// pointwise adaptors
// ---------------------------------------------------------------------------------------------
//@impl file=dasp_signal/src/lib.rs header="impl<S, M, F> Signal for Map<S, M, F>"
//@item file=dasp_signal/src/lib.rs in="impl:<S, M, F> Signal for Map<S, M, F>" kind=type name=Frame
    type State = S::State;
    type Cfg = (S::Cfg, M);
    open spec fn st(&self) -> Self::State { self.signal.st() }
    open spec fn cfg(&self) -> Self::Cfg { (self.signal.cfg(), self.map) }
    open spec fn inv(&self) -> bool { self.signal.inv() && forall|x: S::Frame| call_requires(self.map, (x,)) }
    open spec fn trans(c: Self::Cfg, s: Self::State, f: Self::Frame, s2: Self::State) -> bool {
        exists|x: S::Frame| #[trigger] S::trans(c.0, s, x, s2) && call_ensures(c.1, (x,), f)
    }
    open spec fn exh(s: Self::State) -> bool { S::exh(s) }
//@fn file=dasp_signal/src/lib.rs in="impl:<S, M, F> Signal for Map<S, M, F>" name=next label=Map::next
//@tail
        proof { let c = (old(self).signal.cfg(), old(self).map); assert(c.0 == old(self).signal.cfg() && c.1 == old(self).map); }
//@end
//@fn file=dasp_signal/src/lib.rs in="impl:<S, M, F> Signal for Map<S, M, F>" name=is_exhausted label=Map::is_exhausted
//@end
//@endimpl

//@impl file=dasp_signal/src/lib.rs header="impl<S, O, M, F> Signal for ZipMap<S, O, M, F>"
//@item file=dasp_signal/src/lib.rs in="impl:<S, O, M, F> Signal for ZipMap<S, O, M, F>" kind=type name=Frame
    type State = (S::State, O::State);
    type Cfg = (S::Cfg, O::Cfg, M);
    open spec fn st(&self) -> Self::State { (self.this.st(), self.other.st()) }
    open spec fn cfg(&self) -> Self::Cfg { (self.this.cfg(), self.other.cfg(), self.map) }
    open spec fn inv(&self) -> bool {
        self.this.inv() && self.other.inv() && forall|x: S::Frame, y: O::Frame| call_requires(self.map, (x, y))
    }
    open spec fn trans(c: Self::Cfg, s: Self::State, f: Self::Frame, s2: Self::State) -> bool {
        exists|x: S::Frame, y: O::Frame| #[trigger] S::trans(c.0, s.0, x, s2.0) && #[trigger] O::trans(c.1, s.1, y, s2.1)
            && call_ensures(c.2, (x, y), f)
    }
    open spec fn exh(s: Self::State) -> bool { S::exh(s.0) || O::exh(s.1) }
//@fn file=dasp_signal/src/lib.rs in="impl:<S, O, M, F> Signal for ZipMap<S, O, M, F>" name=next label=ZipMap::next
//@tail
        proof { let c = (old(self).this.cfg(), old(self).other.cfg(), old(self).map); assert(c.0 == old(self).this.cfg() && c.1 == old(self).other.cfg() && c.2 == old(self).map);
            let s = (old(self).this.st(), old(self).other.st()); let s2 = (self.this.st(), self.other.st());
            assert(s.0 == old(self).this.st() && s.1 == old(self).other.st() && s2.0 == self.this.st() && s2.1 == self.other.st()); }
//@end
//@fn file=dasp_signal/src/lib.rs in="impl:<S, O, M, F> Signal for ZipMap<S, O, M, F>" name=is_exhausted label=ZipMap::is_exhausted
//@end
//@endimpl

//@impl file=dasp_signal/src/lib.rs header="impl<A, B> Signal for AddAmp<A, B>"
//@item file=dasp_signal/src/lib.rs in="impl:<A, B> Signal for AddAmp<A, B>" kind=type name=Frame
    type State = (A::State, B::State);
    type Cfg = (A::Cfg, B::Cfg);
    open spec fn st(&self) -> Self::State { (self.a.st(), self.b.st()) }
    open spec fn cfg(&self) -> Self::Cfg { (self.a.cfg(), self.b.cfg()) }
    open spec fn inv(&self) -> bool { self.a.inv() && self.b.inv() }
    open spec fn trans(c: Self::Cfg, s: Self::State, f: Self::Frame, s2: Self::State) -> bool {
        exists|x: A::Frame, y: B::Frame| #[trigger] A::trans(c.0, s.0, x, s2.0) && #[trigger] B::trans(c.1, s.1, y, s2.1)
            && f == add_amp_spec(x, y)
    }
    open spec fn exh(s: Self::State) -> bool { A::exh(s.0) || B::exh(s.1) }
//@fn file=dasp_signal/src/lib.rs in="impl:<A, B> Signal for AddAmp<A, B>" name=next label=AddAmp::next
//@tail
        proof { let c = (old(self).a.cfg(), old(self).b.cfg()); assert(c.0 == old(self).a.cfg() && c.1 == old(self).b.cfg());
            let s = (old(self).a.st(), old(self).b.st()); let s2 = (self.a.st(), self.b.st());
            assert(s.0 == old(self).a.st() && s.1 == old(self).b.st() && s2.0 == self.a.st() && s2.1 == self.b.st()); }
//@end
//@fn file=dasp_signal/src/lib.rs in="impl:<A, B> Signal for AddAmp<A, B>" name=is_exhausted label=AddAmp::is_exhausted
//@end
//@endimpl

//@impl file=dasp_signal/src/lib.rs header="impl<A, B> Signal for MulAmp<A, B>"
//@item file=dasp_signal/src/lib.rs in="impl:<A, B> Signal for MulAmp<A, B>" kind=type name=Frame
    type State = (A::State, B::State);
    type Cfg = (A::Cfg, B::Cfg);
    open spec fn st(&self) -> Self::State { (self.a.st(), self.b.st()) }
    open spec fn cfg(&self) -> Self::Cfg { (self.a.cfg(), self.b.cfg()) }
    open spec fn inv(&self) -> bool { self.a.inv() && self.b.inv() }
    open spec fn trans(c: Self::Cfg, s: Self::State, f: Self::Frame, s2: Self::State) -> bool {
        exists|x: A::Frame, y: B::Frame| #[trigger] A::trans(c.0, s.0, x, s2.0) && #[trigger] B::trans(c.1, s.1, y, s2.1)
            && f == mul_amp_spec(x, y)
    }
    open spec fn exh(s: Self::State) -> bool { A::exh(s.0) || B::exh(s.1) }
//@fn file=dasp_signal/src/lib.rs in="impl:<A, B> Signal for MulAmp<A, B>" name=next label=MulAmp::next
//@tail
        proof { let c = (old(self).a.cfg(), old(self).b.cfg()); assert(c.0 == old(self).a.cfg() && c.1 == old(self).b.cfg());
            let s = (old(self).a.st(), old(self).b.st()); let s2 = (self.a.st(), self.b.st());
            assert(s.0 == old(self).a.st() && s.1 == old(self).b.st() && s2.0 == self.a.st() && s2.1 == self.b.st()); }
//@end
//@fn file=dasp_signal/src/lib.rs in="impl:<A, B> Signal for MulAmp<A, B>" name=is_exhausted label=MulAmp::is_exhausted
//@end
//@endimpl

//@impl file=dasp_signal/src/lib.rs header="impl<S> Signal for ScaleAmp<S>"
//@item file=dasp_signal/src/lib.rs in="impl:<S> Signal for ScaleAmp<S>" kind=type name=Frame
    type State = S::State;
    /// the gain / offset is configuration: next() never changes it
    type Cfg = (S::Cfg, <<S::Frame as Frame>::Sample as Sample>::Float);
    open spec fn st(&self) -> Self::State { self.signal.st() }
    open spec fn cfg(&self) -> Self::Cfg { (self.signal.cfg(), self.amp) }
    open spec fn inv(&self) -> bool { self.signal.inv() }
    open spec fn trans(c: Self::Cfg, s: Self::State, f: Self::Frame, s2: Self::State) -> bool {
        exists|x: S::Frame| #[trigger] S::trans(c.0, s, x, s2) && f == scale_amp_spec(x, c.1)
    }
    open spec fn exh(s: Self::State) -> bool { S::exh(s) }
//@fn file=dasp_signal/src/lib.rs in="impl:<S> Signal for ScaleAmp<S>" name=next label=ScaleAmp::next
//@tail
        proof { let c = (old(self).signal.cfg(), old(self).amp); assert(c.0 == old(self).signal.cfg() && c.1 == old(self).amp); }
//@end
//@fn file=dasp_signal/src/lib.rs in="impl:<S> Signal for ScaleAmp<S>" name=is_exhausted label=ScaleAmp::is_exhausted
//@end
//@endimpl

//@impl file=dasp_signal/src/lib.rs header="impl<S, F> Signal for ScaleAmpPerChannel<S, F>"
//@item file=dasp_signal/src/lib.rs in="impl:<S, F> Signal for ScaleAmpPerChannel<S, F>" kind=type name=Frame
    type State = S::State;
    /// the gain / offset is configuration: next() never changes it
    type Cfg = (S::Cfg, F);
    open spec fn st(&self) -> Self::State { self.signal.st() }
    open spec fn cfg(&self) -> Self::Cfg { (self.signal.cfg(), self.amp_frame) }
    open spec fn inv(&self) -> bool { self.signal.inv() }
    open spec fn trans(c: Self::Cfg, s: Self::State, f: Self::Frame, s2: Self::State) -> bool {
        exists|x: S::Frame| #[trigger] S::trans(c.0, s, x, s2) && f == mul_amp_spec(x, c.1)
    }
    open spec fn exh(s: Self::State) -> bool { S::exh(s) }
//@fn file=dasp_signal/src/lib.rs in="impl:<S, F> Signal for ScaleAmpPerChannel<S, F>" name=next label=ScaleAmpPerChannel::next
//@tail
        proof { let c = (old(self).signal.cfg(), old(self).amp_frame); assert(c.0 == old(self).signal.cfg() && c.1 == old(self).amp_frame); }
//@end
//@fn file=dasp_signal/src/lib.rs in="impl:<S, F> Signal for ScaleAmpPerChannel<S, F>" name=is_exhausted label=ScaleAmpPerChannel::is_exhausted
//@end
//@endimpl

//@impl file=dasp_signal/src/lib.rs header="impl<S> Signal for OffsetAmp<S>"
//@item file=dasp_signal/src/lib.rs in="impl:<S> Signal for OffsetAmp<S>" kind=type name=Frame
    type State = S::State;
    /// the gain / offset is configuration: next() never changes it
    type Cfg = (S::Cfg, <<S::Frame as Frame>::Sample as Sample>::Signed);
    open spec fn st(&self) -> Self::State { self.signal.st() }
    open spec fn cfg(&self) -> Self::Cfg { (self.signal.cfg(), self.offset) }
    open spec fn inv(&self) -> bool { self.signal.inv() }
    open spec fn trans(c: Self::Cfg, s: Self::State, f: Self::Frame, s2: Self::State) -> bool {
        exists|x: S::Frame| #[trigger] S::trans(c.0, s, x, s2) && f == offset_amp_spec(x, c.1)
    }
    open spec fn exh(s: Self::State) -> bool { S::exh(s) }
//@fn file=dasp_signal/src/lib.rs in="impl:<S> Signal for OffsetAmp<S>" name=next label=OffsetAmp::next
//@tail
        proof { let c = (old(self).signal.cfg(), old(self).offset); assert(c.0 == old(self).signal.cfg() && c.1 == old(self).offset); }
//@end
//@fn file=dasp_signal/src/lib.rs in="impl:<S> Signal for OffsetAmp<S>" name=is_exhausted label=OffsetAmp::is_exhausted
//@end
//@endimpl

//@impl file=dasp_signal/src/lib.rs header="impl<S, F> Signal for OffsetAmpPerChannel<S, F>"
//@item file=dasp_signal/src/lib.rs in="impl:<S, F> Signal for OffsetAmpPerChannel<S, F>" kind=type name=Frame
    type State = S::State;
    /// the gain / offset is configuration: next() never changes it
    type Cfg = (S::Cfg, F);
    open spec fn st(&self) -> Self::State { self.signal.st() }
    open spec fn cfg(&self) -> Self::Cfg { (self.signal.cfg(), self.amp_frame) }
    open spec fn inv(&self) -> bool { self.signal.inv() }
    open spec fn trans(c: Self::Cfg, s: Self::State, f: Self::Frame, s2: Self::State) -> bool {
        exists|x: S::Frame| #[trigger] S::trans(c.0, s, x, s2) && f == add_amp_spec(x, c.1)
    }
    open spec fn exh(s: Self::State) -> bool { S::exh(s) }
//@fn file=dasp_signal/src/lib.rs in="impl:<S, F> Signal for OffsetAmpPerChannel<S, F>" name=next label=OffsetAmpPerChannel::next
//@tail
        proof { let c = (old(self).signal.cfg(), old(self).amp_frame); assert(c.0 == old(self).signal.cfg() && c.1 == old(self).amp_frame); }
//@end
//@fn file=dasp_signal/src/lib.rs in="impl:<S, F> Signal for OffsetAmpPerChannel<S, F>" name=is_exhausted label=OffsetAmpPerChannel::is_exhausted
//@end
//@endimpl

//@impl file=dasp_signal/src/lib.rs header="impl<S> Signal for Delay<S>"
//@item file=dasp_signal/src/lib.rs in="impl:<S> Signal for Delay<S>" kind=type name=Frame
    /// (source state, equilibrium frames still to emit)
    type State = (S::State, nat);
    type Cfg = S::Cfg;
    open spec fn st(&self) -> Self::State { (self.signal.st(), self.n_frames as nat) }
    open spec fn cfg(&self) -> Self::Cfg { self.signal.cfg() }
    open spec fn inv(&self) -> bool { self.signal.inv() }
    open spec fn trans(c: Self::Cfg, s: Self::State, f: Self::Frame, s2: Self::State) -> bool {
        if s.1 > 0 {
            // leading silence: the source is NOT pulled
            f == <S::Frame as Frame>::equilibrium_spec() && s2 == (s.0, (s.1 - 1) as nat)
        } else {
            S::trans(c, s.0, f, s2.0) && s2.1 == 0
        }
    }
    open spec fn exh(s: Self::State) -> bool { s.1 == 0 && S::exh(s.0) }
//@fn file=dasp_signal/src/lib.rs in="impl:<S> Signal for Delay<S>" name=next label=Delay::next rules=R-assocconst
//@end
//@fn file=dasp_signal/src/lib.rs in="impl:<S> Signal for Delay<S>" name=is_exhausted label=Delay::is_exhausted
//@end
//@endimpl

//@impl file=dasp_signal/src/lib.rs header="impl<S, F> Signal for Inspect<S, F>"
//@item file=dasp_signal/src/lib.rs in="impl:<S, F> Signal for Inspect<S, F>" kind=type name=Frame
    type State = S::State;
    type Cfg = S::Cfg;
    open spec fn st(&self) -> Self::State { self.signal.st() }
    open spec fn cfg(&self) -> Self::Cfg { self.signal.cfg() }
    open spec fn inv(&self) -> bool { self.signal.inv() && forall|x: &S::Frame| call_requires(self.inspect, (x,)) }
    /// inspect yields the source frame unchanged
    open spec fn trans(c: Self::Cfg, s: Self::State, f: Self::Frame, s2: Self::State) -> bool { S::trans(c, s, f, s2) }
    open spec fn exh(s: Self::State) -> bool { S::exh(s) }
//@fn file=dasp_signal/src/lib.rs in="impl:<S, F> Signal for Inspect<S, F>" name=next label=Inspect::next
//@end
//@fn file=dasp_signal/src/lib.rs in="impl:<S, F> Signal for Inspect<S, F>" name=is_exhausted label=Inspect::is_exhausted
//@end
//@endimpl

// clip_amp: per channel from_signed(clamp(to_signed(x), -t, t))
pub open spec fn gt<T: PartialOrd>(a: T, b: T) -> bool { a.partial_cmp_spec(&b) == Some(core::cmp::Ordering::Greater) }
pub open spec fn lt<T: PartialOrd>(a: T, b: T) -> bool { a.partial_cmp_spec(&b) == Some(core::cmp::Ordering::Less) }
pub open spec fn clip_spec<X: Sample>(x: X, t: X::Signed) -> X {
    let s = conv_spec::<X, X::Signed>(x);
    conv_spec::<X::Signed, X>(if gt(s, t) { t } else if lt(s, t.neg_spec()) { t.neg_spec() } else { s })
}

//@impl file=dasp_signal/src/lib.rs header="impl<S> Signal for ClipAmp<S>"
//@item file=dasp_signal/src/lib.rs in="impl:<S> Signal for ClipAmp<S>" kind=type name=Frame
    type State = S::State;
    type Cfg = (S::Cfg, <<S::Frame as Frame>::Sample as Sample>::Signed);
    open spec fn st(&self) -> Self::State { self.signal.st() }
    open spec fn cfg(&self) -> Self::Cfg { (self.signal.cfg(), self.thresh) }
    /// side conditions: the negated threshold is representable (the property's own side condition) and the
    /// signed companion type's `<`, `>`, unary `-` follow their specs (true of every primitive; vstd)
    open spec fn inv(&self) -> bool {
        self.signal.inv() && self.thresh.neg_req()
        && <<<S::Frame as Frame>::Sample as Sample>::Signed as PartialOrdSpec>::obeys_partial_cmp_spec()
        && <<<S::Frame as Frame>::Sample as Sample>::Signed as NegSpec>::obeys_neg_spec()
    }
    open spec fn trans(c: Self::Cfg, s: Self::State, f: Self::Frame, s2: Self::State) -> bool {
        exists|x: S::Frame| #[trigger] S::trans(c.0, s, x, s2)
            && forall|i: int| 0 <= i < <S::Frame as Frame>::nch() ==> #[trigger] f.ch(i) == clip_spec(x.ch(i), c.1)
    }
    open spec fn exh(s: Self::State) -> bool { S::exh(s) }
//@fn file=dasp_signal/src/lib.rs in="impl:<S> Signal for ClipAmp<S>" name=next label=ClipAmp::next
//@closure 0 "|s|"
|s: <S::Frame as Frame>::Sample| -> (r: <S::Frame as Frame>::Sample)
            ensures r == clip_spec(s, self.thresh)
//@tail
        proof { let c = (old(self).signal.cfg(), old(self).thresh); assert(c.0 == old(self).signal.cfg() && c.1 == old(self).thresh); }
//@end
//@fn file=dasp_signal/src/lib.rs in="impl:<S> Signal for ClipAmp<S>" name=is_exhausted label=ClipAmp::is_exhausted
//@end
//@endimpl

// ---------------------------------------------------------------------------------------------
// iterators over signals
// ---------------------------------------------------------------------------------------------
//@impl file=dasp_signal/src/lib.rs header="impl<S> Iterator for UntilExhausted<S>" as="impl<S> UntilExhausted<S>"
//@fn file=dasp_signal/src/lib.rs in="impl:<S> Iterator for UntilExhausted<S>" name=next ret=r label=UntilExhausted::next rules=R-subst:Self::Item=>S::Frame
//@spec
        requires old(self).signal.inv(),
        ensures
            final(self).signal.inv(), final(self).signal.cfg() == old(self).signal.cfg(),
            // exhausted: None, and the signal is not touched ("then stop for good": the state is a fixpoint)
            S::exh(old(self).signal.st()) ==> r is None && final(self).signal.st() == old(self).signal.st(),
            // otherwise exactly one frame is pulled and yielded
            !S::exh(old(self).signal.st()) ==> r is Some
                && S::trans(old(self).signal.cfg(), old(self).signal.st(), r.unwrap(), final(self).signal.st()),
//@end
//@endimpl

//@impl file=dasp_signal/src/lib.rs header="impl<S> Iterator for Take<S>" as="impl<S> Take<S>"
//@fn file=dasp_signal/src/lib.rs in="impl:<S> Iterator for Take<S>" name=next ret=r label=Take::next rules=R-subst:Self::Item=>S::Frame
//@spec
        requires old(self).signal.inv(),
        ensures
            final(self).signal.inv(), final(self).signal.cfg() == old(self).signal.cfg(),
            old(self).n == 0 ==> r is None && final(self).n == 0 && final(self).signal.st() == old(self).signal.st(),
            old(self).n > 0 ==> r is Some && final(self).n == old(self).n - 1
                && S::trans(old(self).signal.cfg(), old(self).signal.st(), r.unwrap(), final(self).signal.st()),
//@end
//@fn file=dasp_signal/src/lib.rs in="impl:<S> Iterator for Take<S>" name=size_hint ret=r label=Take::size_hint
//@spec
        ensures r.0 == self.n, r.1 == Some(self.n),
//@end
//@endimpl

//@impl file=dasp_signal/src/lib.rs header="impl<S> ExactSizeIterator for Take<S>" as="impl<S> Take<S>"
//@fn file=dasp_signal/src/lib.rs in="impl:<S> ExactSizeIterator for Take<S>" name=len ret=r label=Take::len
//@spec
        ensures r == self.n,
//@end
//@endimpl


// ---------------------------------------------------------------------------------------------
// interleaved sample output
// ---------------------------------------------------------------------------------------------
//@impl file=dasp_signal/src/lib.rs header="impl<S> IntoInterleavedSamples<S>"
    /// the channel iterator currently held is positioned at channel i of frame f
    pub open spec fn at(&self, f: S::Frame, i: nat) -> bool {
        self.current_frame is Some && self.current_frame.unwrap().ist() == channels_ist::<S::Frame>(f, i) && i <= <S::Frame as Frame>::nch()
    }
    pub open spec fn wf(&self) -> bool {
        self.signal.inv() && (self.current_frame is Some ==> exists|f: S::Frame, i: nat|
            #[trigger] channels_ist::<S::Frame>(f, i) == self.current_frame.unwrap().ist() && i <= <S::Frame as Frame>::nch())
    }
//@fn file=dasp_signal/src/lib.rs in="impl:<S> IntoInterleavedSamples<S>" name=next_sample ret=r label=IntoInterleavedSamples::next_sample
//@spec
        requires old(self).wf(),
        ensures
            final(self).wf(),
            // inside a frame: the next channel of that frame, the signal is not pulled
            forall|f: S::Frame, i: nat| old(self).at(f, i) && i < <S::Frame as Frame>::nch() ==>
                r == Some(f.ch(i as int)) && final(self).at(f, i + 1) && final(self).signal.st() == old(self).signal.st(),
            // at a frame boundary (or before the first frame) ...
            (old(self).current_frame is None || exists|f: S::Frame| old(self).at(f, <S::Frame as Frame>::nch())) ==> (
                // ... exhausted signal: None, nothing pulled, stays None
                (S::exh(old(self).signal.st()) ==> r is None && final(self).current_frame is None
                    && final(self).signal.st() == old(self).signal.st())
                // ... otherwise exactly one frame is pulled and its channel 0 is yielded
                && (!S::exh(old(self).signal.st()) ==> exists|g: S::Frame|
                    #[trigger] S::trans(old(self).signal.cfg(), old(self).signal.st(), g, final(self).signal.st())
                    && r == Some(g.ch(0)) && final(self).at(g, 1))
            ),
        decreases (if old(self).current_frame is Some { 1int } else { 0int }),
//@entry
        broadcast use ax_channels_next;
        proof { <S::Frame as Frame>::nch_positive(); }
//@end
//@fn file=dasp_signal/src/lib.rs in="impl:<S> IntoInterleavedSamples<S>" name=into_iter ret=r label=IntoInterleavedSamples::into_iter
//@spec
        // the iterator continues EXACTLY where next_sample left off (a frame in progress is not dropped, nothing is pulled)
        ensures r.samples == self,
//@end
//@endimpl

// Clone: a clone taken in the middle of a frame keeps the frame in progress (R-inherent; the source's and the channel iterator's
// own Clone impls are contract-only stand-ins: a clone is equal to the original)
pub trait CloneEq: Sized { fn clone_eq_(&self) -> (r: Self) ensures r == *self; }
impl<T> CloneEq for T { #[verifier::external_body] fn clone_eq_(&self) -> (r: Self) { unimplemented!() } }
//@impl file=dasp_signal/src/lib.rs header="impl<S> Clone for IntoInterleavedSamples<S>" as="impl<S> IntoInterleavedSamples<S>"
//@fn file=dasp_signal/src/lib.rs in="impl:<S> Clone for IntoInterleavedSamples<S>" name=clone ret=r label=IntoInterleavedSamples::clone vis=pub "rules=R-subst:fn clone=>fn clone_,R-subst:.clone()=>.clone_eq_()"
//@spec
        ensures r.signal == self.signal, r.current_frame == self.current_frame,
//@end
//@endimpl

//@impl file=dasp_signal/src/lib.rs header="impl<S> Iterator for IntoInterleavedSamplesIterator<S>" as="impl<S> IntoInterleavedSamplesIterator<S>"
//@fn file=dasp_signal/src/lib.rs in="impl:<S> Iterator for IntoInterleavedSamplesIterator<S>" name=next ret=r label=IntoInterleavedSamplesIterator::next vis=pub "rules=R-subst:Self::Item=><S::Frame as Frame>::Sample"
//@spec
        // the iterator is next_sample, call for call
        requires old(self).samples.wf(),
        ensures
            final(self).samples.wf(),
            forall|f: S::Frame, i: nat| old(self).samples.at(f, i) && i < <S::Frame as Frame>::nch() ==>
                r == Some(f.ch(i as int)) && final(self).samples.at(f, i + 1) && final(self).samples.signal.st() == old(self).samples.signal.st(),
            (old(self).samples.current_frame is None || exists|f: S::Frame| old(self).samples.at(f, <S::Frame as Frame>::nch())) ==> (
                (S::exh(old(self).samples.signal.st()) ==> r is None && final(self).samples.current_frame is None
                    && final(self).samples.signal.st() == old(self).samples.signal.st())
                && (!S::exh(old(self).samples.signal.st()) ==> exists|g: S::Frame|
                    #[trigger] S::trans(old(self).samples.signal.cfg(), old(self).samples.signal.st(), g, final(self).samples.signal.st())
                    && r == Some(g.ch(0)) && final(self).samples.at(g, 1))
            ),
//@end
//@endimpl

// ---------------------------------------------------------------------------------------------
// constructors: the default methods of `trait Signal` (extracted into an extension trait because a
// Verus trait may not mention itself in a method bound).  Frame condition: the adaptor is built
// from the arguments and NOTHING is pulled.
// ---------------------------------------------------------------------------------------------
pub trait SignalCtors: Signal + Sized {
//@fn file=dasp_signal/src/lib.rs in="trait:Signal" name=map ret=r label=Signal::map
//@spec
        ensures r.signal == self, r.map == map,
//@end
//@fn file=dasp_signal/src/lib.rs in="trait:Signal" name=zip_map ret=r label=Signal::zip_map
//@spec
        ensures r.this == self, r.other == other, r.map == map,
//@end
//@fn file=dasp_signal/src/lib.rs in="trait:Signal" name=add_amp ret=r label=Signal::add_amp
//@spec
        ensures r.a == self, r.b == other,
//@end
//@fn file=dasp_signal/src/lib.rs in="trait:Signal" name=mul_amp ret=r label=Signal::mul_amp
//@spec
        ensures r.a == self, r.b == other,
//@end
//@fn file=dasp_signal/src/lib.rs in="trait:Signal" name=offset_amp ret=r label=Signal::offset_amp
//@spec
        ensures r.signal == self, r.offset == offset,
//@end
//@fn file=dasp_signal/src/lib.rs in="trait:Signal" name=scale_amp ret=r label=Signal::scale_amp
//@spec
        ensures r.signal == self, r.amp == amp,
//@end
//@fn file=dasp_signal/src/lib.rs in="trait:Signal" name=offset_amp_per_channel ret=r label=Signal::offset_amp_per_channel
//@spec
        ensures r.signal == self, r.amp_frame == amp_frame,
//@end
//@fn file=dasp_signal/src/lib.rs in="trait:Signal" name=scale_amp_per_channel ret=r label=Signal::scale_amp_per_channel
//@spec
        ensures r.signal == self, r.amp_frame == amp_frame,
//@end
//@fn file=dasp_signal/src/lib.rs in="trait:Signal" name=delay ret=r label=Signal::delay
//@spec
        ensures r.signal == self, r.n_frames == n_frames,
//@end
//@fn file=dasp_signal/src/lib.rs in="trait:Signal" name=into_interleaved_samples ret=r label=Signal::into_interleaved_samples
//@spec
        ensures r.signal == self, r.current_frame is None,
//@end
//@fn file=dasp_signal/src/lib.rs in="trait:Signal" name=clip_amp ret=r label=Signal::clip_amp
//@spec
        ensures r.signal == self, r.thresh == thresh,
//@end
//@fn file=dasp_signal/src/lib.rs in="trait:Signal" name=inspect ret=r label=Signal::inspect
//@spec
        ensures r.signal == self, r.inspect == inspect,
//@end
//@fn file=dasp_signal/src/lib.rs in="trait:Signal" name=take ret=r label=Signal::take
//@spec
        ensures r.signal == self, r.n == n,
//@end
//@fn file=dasp_signal/src/lib.rs in="trait:Signal" name=until_exhausted ret=r label=Signal::until_exhausted
//@spec
        ensures r.signal == self,
//@end
//@fn file=dasp_signal/src/lib.rs in="trait:Signal" name=by_ref ret=r label=Signal::by_ref
//@spec
        ensures *r == *old(self), *final(r) == *final(self),
//@end
}
impl<T: Signal + Sized> SignalCtors for T {}

// free constructors
//@fn file=dasp_signal/src/lib.rs in="" name=from_iter ret=r label=from_iter
//@spec
        ensures
            // one item is pre-fetched as look-ahead
            r.st() == (<I::IntoIter as Iterator>::inext(frames.into_ist()).1, <I::IntoIter as Iterator>::inext(frames.into_ist()).0),
//@end

//@fn file=dasp_signal/src/lib.rs in="" name=from_interleaved_samples_iter ret=r label=from_interleaved_samples_iter rules=R-subst:Frame::from_samples=>FrameOps::from_samples
//@spec
        ensures
            r.st().0 == take_n::<I::IntoIter>(samples.into_ist(), F::nch()).1,
            r.st().1.is_some() == (take_n::<I::IntoIter>(samples.into_ist(), F::nch()).0.len() == F::nch()),
            r.st().1.is_some() ==> (forall|i: int| 0 <= i < F::nch() ==>
                #[trigger] r.st().1.unwrap().ch(i) == take_n::<I::IntoIter>(samples.into_ist(), F::nch()).0[i]),
//@end

// ---------------------------------------------------------------------------------------------
// Property lemmas (C05) over the contracts above
// ---------------------------------------------------------------------------------------------

/// iterator state after k calls of next()
pub open spec fn it_state<I: Iterator>(i0: I::ISt, k: nat) -> I::ISt
    decreases k
{ if k == 0 { i0 } else { I::inext(it_state::<I>(i0, (k - 1) as nat)).1 } }

/// the k-th item (0-based) the iterator returns
pub open spec fn it_item<I: Iterator>(i0: I::ISt, k: nat) -> Option<I::Item> { I::inext(it_state::<I>(i0, k)).0 }

/// functional reading of FromIterator's transition relation
pub open spec fn fi_step<I: Iterator>(s: (I::ISt, Option<I::Item>)) -> (I::ISt, Option<I::Item>) {
    match s.1 { Some(x) => (I::inext(s.0).1, I::inext(s.0).0), None => s }
}
pub open spec fn fi_stepn<I: Iterator>(s: (I::ISt, Option<I::Item>), n: nat) -> (I::ISt, Option<I::Item>)
    decreases n
{ if n == 0 { s } else { fi_step::<I>(fi_stepn::<I>(s, (n - 1) as nat)) } }

/// the relation IS that function (so FromIterator is deterministic)
pub proof fn lemma_from_iter_deterministic<I: Iterator>(s: (I::ISt, Option<I::Item>), f: I::Item, s2: (I::ISt, Option<I::Item>))
    where I::Item: Frame
    ensures FromIterator::<I>::trans((), s, f, s2) <==> (s2 == fi_step::<I>(s)
        && f == (match s.1 { Some(x) => x, None => <I::Item as Frame>::equilibrium_spec() }))
{}

/// C05 "yields exactly the iterator's frames in order": as long as the iterator's first k+1 items are
/// Some, after k calls of next() the look-ahead is item k (so the k-th frame yielded is item k) and the
/// iterator has been advanced exactly k+1 times (one look-ahead).
pub proof fn lemma_from_iter_yields_items<I: Iterator>(i0: I::ISt, k: nat)
    requires forall|j: nat| j < k ==> (#[trigger] it_item::<I>(i0, j)) is Some,
    ensures fi_stepn::<I>((it_state::<I>(i0, 1), it_item::<I>(i0, 0)), k) == (it_state::<I>(i0, k + 1), it_item::<I>(i0, k)),
    decreases k
{
    if k > 0 {
        lemma_from_iter_yields_items::<I>(i0, (k - 1) as nat);
        assert(it_item::<I>(i0, (k - 1) as nat) is Some);
    }
}

/// C05 "reports exhaustion exactly when none remain, then silent forever": once the look-ahead is None the
/// state is a fixpoint of next(): every further frame is equilibrium and the iterator is never called again.
pub proof fn lemma_from_iter_exhausted_forever<I: Iterator>(s: (I::ISt, Option<I::Item>), n: nat)
    requires s.1 is None
    ensures fi_stepn::<I>(s, n) == s
    decreases n
{
    if n > 0 { lemma_from_iter_exhausted_forever::<I>(s, (n - 1) as nat); }
}
} // verus!
fn main() {}
