//! Unit osc (C17), bit-precise part: noise source for every seed; saw and square from EVERY
//! phase state (hook Phase::verif_from_parts, cfg rustaudio_dasp_verif).  All harnesses are loop-free over
//! the full symbolic domain: complete, not bounded.
#![allow(unused)]

#[cfg(kani)]
pub mod proofs {
    use dasp_signal::{self as signal, Signal, Phase, ConstHz, Step};

    /// noise output lies within [-1, 1] for EVERY seed, and the call never panics
    #[kani::proof]
    pub fn c17_noise_range() {
        let seed: u64 = kani::any();
        let mut n = signal::noise(seed);
        let v = n.next_sample();
        assert!(v >= -1.0 && v <= 1.0);
        let w = n.next();                 // Signal::next is next_sample
        assert!(w >= -1.0 && w <= 1.0);
    }

    /// noise is a pure function of (seed, frame index): restarting at seed+1 reproduces frame 1, a clone reproduces.
    /// BOUNDED in the seed: 3 x 256 seeds (smallest, largest, one mid-range block) (two symbolic evaluations of the 64-bit
    /// cubic hash over all seeds do not terminate in CBMC); the generator has no other state than the seed.
    #[kani::proof]
    pub fn c17_b_noise_pure() {
        let small: u8 = kani::any();
        let which: u8 = kani::any();
        let seed: u64 = if which == 0 { small as u64 } else if which == 1 { u64::MAX - (small as u64) } else { 0x9E37_79B9_7F4A_7C00 + small as u64 };
        let mut a = signal::noise(seed);
        let mut c = a.clone();
        let a0 = a.next_sample();
        let a1 = a.next_sample();
        let mut b = signal::noise(seed.wrapping_add(1));
        assert!(b.next_sample().to_bits() == a1.to_bits());
        assert!(c.next_sample().to_bits() == a0.to_bits());
        assert!(c.next_sample().to_bits() == a1.to_bits());
    }

    /// the only step source needed here: a fixed increment
    struct Fixed(f64);
    impl Step for Fixed { fn step(&mut self) -> f64 { self.0 } }

    /// from ANY phase in [0,1) and ANY finite step >= 0, next_phase yields the CURRENT phase bit-for-bit and leaves a phase in
    /// [0, 1).  CAVEAT (measured): Kani 0.68 / CBMC 6.11 evaluates the f64 `%` operator to 0.0 for every operand (5.5 % 2.0 == 0.0),
    /// so for an implementation that wraps with `%` — the current one — the range assertion holds trivially and is NOT counted as
    /// evidence (the wrap is decided by the Verus unit `osc` over exact reals); it is kept because it does decide
    /// implementations that wrap by other means (casts, subtraction loops), as a round-1 seeded change showed.
    #[kani::proof]
    pub fn c17_phase_yields_current() {
        let next: f64 = kani::any();
        let step: f64 = kani::any();
        kani::assume(next >= 0.0 && next < 1.0);
        kani::assume(step >= 0.0 && step.is_finite() && (next + step).is_finite());
        let mut p = Phase::verif_from_parts(Fixed(step), next);
        let r = p.next_phase();
        assert!(r.to_bits() == next.to_bits());
        let n2 = core::mem::replace(&mut p, Phase::verif_from_parts(Fixed(0.0), 0.0)).next_phase();     // the phase left behind
        assert!(n2 >= 0.0 && n2 < 1.0);
        kani::cover!(step > 1.0, "frequency above the rate reachable");
    }

    /// the phase starts at 0 (any finite non-negative frequency; what it becomes after the first step involves `%`: Verus)
    #[kani::proof]
    pub fn c17_phase_starts_at_zero() {
        let hz: f64 = kani::any();
        kani::assume(hz >= 0.0 && hz.is_finite());
        let mut p = signal::rate(4.0).const_hz(hz).phase();
        assert!(p.next_phase() == 0.0);
    }

    /// saw == 1 - 2 * phase within (-1, 1]; square == +1 on the first half-cycle, -1 on the second — from every phase
    #[kani::proof]
    pub fn c17_saw_square_bits() {
        let next: f64 = kani::any();
        kani::assume(next >= 0.0 && next < 1.0);
        let mut saw = Phase::verif_from_parts(Fixed(0.25), next).saw();
        let s = saw.next();
        assert!(s.to_bits() == (next * -2.0 + 1.0).to_bits());
        assert!(s > -1.0 && s <= 1.0);
        let mut sq = Phase::verif_from_parts(Fixed(0.25), next).square();
        let q = sq.next();
        assert!(q == if next < 0.5 { 1.0 } else { -1.0 });
    }
    /// step == frequency / rate as the correctly rounded f64 quotient, for representative rates that are NOT powers of
    /// two (CBMC does not finish a symbolic f64 divisor: the rate is concrete).  The frequency ranges over every finite
    /// non-negative f32 value widened to f64 (quick tier) / every finite non-negative f64 (thorough tier, rate 49).
    fn step_const(rate: f64, hz: f64) {
        kani::assume(hz >= 0.0 && hz.is_finite());
        let mut c = signal::rate(rate).const_hz(hz);
        assert!(c.step().to_bits() == (hz / rate).to_bits());
    }
    fn step_var(rate: f64, hz: f64) {
        kani::assume(hz >= 0.0 && hz.is_finite());
        let mut v = signal::rate(rate).hz(signal::gen(move || hz));
        assert!(v.step().to_bits() == (hz / rate).to_bits());
    }
    #[kani::proof] pub fn c17_step_bits_const_49() { step_const(49.0, kani::any::<f32>() as f64) }
    #[kani::proof] pub fn c17_step_bits_var_49() { step_var(49.0, kani::any::<f32>() as f64) }
    #[kani::proof] pub fn c17t_step_bits_const_44100() { step_const(44100.0, kani::any::<f32>() as f64) }
    #[kani::proof] pub fn c17t_step_bits_var_44100() { step_var(44100.0, kani::any::<f32>() as f64) }
    #[kani::proof] pub fn c17t_step_bits_const_49() { step_const(49.0, kani::any()) }
    #[kani::proof] pub fn c17t_step_bits_var_49() { step_var(49.0, kani::any()) }
}
