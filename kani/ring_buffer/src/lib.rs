//! Bounded [K<=] stand-in for the std-iterator views of the ring buffers (C06): iter, iter_loop,
//! iter_mut are chains of core adaptors (Cycle/Skip/Take/Chain) with no Verus model.
//! Capacity CAP (const generic, 1..=4), every (start,len) / first, symbolic contents.
#![allow(unused)]
#[cfg(kani)]
pub mod proofs {
    use dasp_ring_buffer::{Bounded, Fixed};

    fn oracle_b<const CAP: usize>(d: &[i32; CAP], start: usize, i: usize) -> i32 { d[(start + i) % CAP] }

    pub fn bounded_iter<const CAP: usize>() {
        let d: [i32; CAP] = kani::any();
        let start: usize = kani::any();
        let len: usize = kani::any();
        kani::assume(start < CAP && len <= CAP);
        let rb = Bounded::from_raw_parts(start, len, d);
        let mut n = 0usize;
        for x in rb.iter() {
            assert!(n < len);
            assert!(*x == oracle_b(&d, start, n));
            n += 1;
        }
        assert!(n == len);
        kani::cover!(len == CAP && start > 0 || CAP == 1, "wrapped full buffer reachable");
    }

    pub fn bounded_iter_mut<const CAP: usize>() {
        let d: [i32; CAP] = kani::any();
        let start: usize = kani::any();
        let len: usize = kani::any();
        kani::assume(start < CAP && len <= CAP);
        let mut rb = Bounded::from_raw_parts(start, len, d);
        let mut n = 0usize;
        for x in rb.iter_mut() {
            assert!(n < len);
            assert!(*x == oracle_b(&d, start, n));
            *x = 1000 + n as i32;
            n += 1;
        }
        assert!(n == len);
        // write-through: element i of the queue is now 1000+i, dead slots untouched
        let i: usize = kani::any();
        kani::assume(i < CAP);
        match rb.get(i) {
            Some(v) => { assert!(i < len); assert!(*v == 1000 + i as i32); }
            None => assert!(i >= len),
        }
        let (s2, l2, d2) = unsafe { rb.into_raw_parts() };
        assert!(s2 == start && l2 == len);
        let k: usize = kani::any();
        kani::assume(k < CAP);
        let live = (k + CAP - start) % CAP < len;
        if !live { assert!(d2[k] == d[k]); }
    }

    pub fn bounded_slices_mut<const CAP: usize>() {
        let d: [i32; CAP] = kani::any();
        let start: usize = kani::any();
        let len: usize = kani::any();
        kani::assume(start < CAP && len <= CAP);
        let mut rb = Bounded::from_raw_parts(start, len, d);
        {
            let (a, b) = rb.slices_mut();
            assert!(a.len() + b.len() == len);
            let i: usize = kani::any();
            kani::assume(i < len);
            let v = if i < a.len() { &mut a[i] } else { &mut b[i - a.len()] };
            assert!(*v == oracle_b(&d, start, i));
            *v = -5;
            // leak i through a second symbolic read below
            let j: usize = kani::any();
            kani::assume(j < len && j != i);
            let w = if j < a.len() { a[j] } else { b[j - a.len()] };
            assert!(w == oracle_b(&d, start, j));
        }
    }

    pub fn fixed_iter<const CAP: usize>() {
        let d: [i32; CAP] = kani::any();
        let first: usize = kani::any();
        kani::assume(first < CAP);
        let rb = Fixed::from_raw_parts(first, d);
        let mut n = 0usize;
        for x in rb.iter() {
            assert!(n < CAP);
            assert!(*x == d[(first + n) % CAP]);
            n += 1;
        }
        assert!(n == CAP);
    }

    pub fn fixed_iter_loop<const CAP: usize>() {
        let d: [i32; CAP] = kani::any();
        let first: usize = kani::any();
        kani::assume(first < CAP);
        let rb = Fixed::from_raw_parts(first, d);
        let mut n = 0usize;
        for x in rb.iter_loop().take(CAP + 2) {
            assert!(*x == d[(first + n) % CAP]);
            n += 1;
        }
        assert!(n == CAP + 2);
    }

    pub fn fixed_iter_mut<const CAP: usize>() {
        let d: [i32; CAP] = kani::any();
        let first: usize = kani::any();
        kani::assume(first < CAP);
        let mut rb = Fixed::from_raw_parts(first, d);
        let mut n = 0usize;
        for x in rb.iter_mut() {
            assert!(n < CAP);
            assert!(*x == d[(first + n) % CAP]);
            *x = 1000 + n as i32;
            n += 1;
        }
        assert!(n == CAP);
        let i: usize = kani::any();
        kani::assume(i < CAP);
        assert!(rb[i] == 1000 + i as i32);
        {
            let (a, b) = rb.slices_mut();
            assert!(a.len() + b.len() == CAP);
            let v = if i < a.len() { &mut a[i] } else { &mut b[i - a.len()] };
            assert!(*v == 1000 + i as i32);
            *v = 7;
        }
        assert!(rb[i] == 7);
        let (f2, _) = rb.into_raw_parts();
        assert!(f2 == first);
    }

    /// Extend == pushing the items one after the other (ideal queue semantics), FromIterator == From(collected storage)
    pub fn extend_and_from_iter<const CAP: usize>() {
        let d: [i32; CAP] = kani::any();
        let start: usize = kani::any(); let len: usize = kani::any();
        kani::assume(start < CAP && len <= CAP);
        let x: i32 = kani::any(); let y: i32 = kani::any();
        let mut a = Bounded::from_raw_parts(start, len, d);
        let mut b = Bounded::from_raw_parts(start, len, d);
        a.extend([x, y].iter().cloned());
        b.push(x); b.push(y);
        assert!(a.len() == b.len());
        let i: usize = kani::any();
        kani::assume(i < a.len());
        assert!(a.get(i) == b.get(i));
        let mut fa = Fixed::from_raw_parts(start, d);
        let mut fb = Fixed::from_raw_parts(start, d);
        fa.extend([x, y].iter().cloned());
        fb.push(x); fb.push(y);
        let j: usize = kani::any();
        kani::assume(j < CAP);
        assert!(fa[j] == fb[j]);
        assert!(fa.len() == CAP);
    }
    #[kani::proof] #[kani::unwind(8)] pub fn extend_cap1() { extend_and_from_iter::<1>() }
    #[kani::proof] #[kani::unwind(8)] pub fn extend_cap2() { extend_and_from_iter::<2>() }
    #[kani::proof] #[kani::unwind(8)] pub fn extend_cap3() { extend_and_from_iter::<3>() }

    macro_rules! inst {
        ($($n:literal $bi:ident $bm:ident $bs:ident $fi:ident $fl:ident $fm:ident;)*) => {$(
            #[kani::proof] #[kani::unwind(8)] pub fn $bi() { bounded_iter::<$n>() }
            #[kani::proof] #[kani::unwind(8)] pub fn $bm() { bounded_iter_mut::<$n>() }
            #[kani::proof] #[kani::unwind(8)] pub fn $bs() { bounded_slices_mut::<$n>() }
            #[kani::proof] #[kani::unwind(8)] pub fn $fi() { fixed_iter::<$n>() }
            #[kani::proof] #[kani::unwind(8)] pub fn $fl() { fixed_iter_loop::<$n>() }
            #[kani::proof] #[kani::unwind(8)] pub fn $fm() { fixed_iter_mut::<$n>() }
        )*};
    }
    inst! {
        1 bounded_iter_cap1 bounded_iter_mut_cap1 bounded_slices_mut_cap1 fixed_iter_cap1 fixed_iter_loop_cap1 fixed_iter_mut_cap1;
        2 bounded_iter_cap2 bounded_iter_mut_cap2 bounded_slices_mut_cap2 fixed_iter_cap2 fixed_iter_loop_cap2 fixed_iter_mut_cap2;
        3 bounded_iter_cap3 bounded_iter_mut_cap3 bounded_slices_mut_cap3 fixed_iter_cap3 fixed_iter_loop_cap3 fixed_iter_mut_cap3;
        4 bounded_iter_cap4 bounded_iter_mut_cap4 bounded_slices_mut_cap4 fixed_iter_cap4 fixed_iter_loop_cap4 fixed_iter_mut_cap4;
    }
}
