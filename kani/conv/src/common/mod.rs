pub mod spec;
