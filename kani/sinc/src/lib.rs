//! Unit sinc (C18), BOUNDED: depth in 1..=3, 0..=depth+2 fed frames, symbolic finite f64
//! mono frames, symbolic x in [0, 1).  Decides only: index safety (no underflow / out-of-range access / panic),
//! priming (idx' == min(idx + 1, depth), exactly one push per fed frame), reset (initial silent state), and
//! that `new` rejects odd lengths.  The numeric clauses of C18 depend on libm sin/cos values, which CBMC
//! over-approximates: they are out of reach and NOT claimed.
#![allow(unused)]

#[cfg(kani)]
pub mod proofs {
    use dasp_interpolate::{sinc::Sinc, Interpolator};
    use dasp_ring_buffer as rb;

    /// CBMC's own libm models of sin/cos are software-float polynomials that dominate the solving time; the
    /// harnesses stub them by an arbitrary value in [-1, 1] (index safety, priming and reset do not depend on them)
    pub fn nd_trig(_x: f64) -> f64 { let v: f64 = kani::any(); kani::assume(v >= -1.0 && v <= 1.0); v }

    fn fin() -> f64 { let x: f64 = kani::any(); kani::assume(x.is_finite() && x.abs() <= 1.0); x }

    fn run<const LEN: usize, const K: usize>(x_symbolic: bool) {
        let depth = LEN / 2;
        let data: [[f64; 1]; LEN] = core::array::from_fn(|_| [fin()]);
        // (the ring's start offset is fixed: ring-buffer correctness from every offset is C06's business; a
        //  symbolic offset multiplies the points-to sets of every frames[..] access)
        let mut s = Sinc::new(rb::Fixed::from(data));
        assert!(s.verif_idx() == 0);
        let k: usize = K;
        let mut i = 0;
        while i < k {
            let idx0 = s.verif_idx();
            let f = [fin()];
            let second_oldest = *s.verif_frames().get(1);
            s.next_source_frame(f);
            // priming: idx counts fed frames up to depth; the frame is pushed exactly once (newest slot)
            assert!(s.verif_idx() == if idx0 < depth { idx0 + 1 } else { depth });
            assert!(s.verif_frames().get(LEN - 1)[0].to_bits() == f[0].to_bits());
            assert!(s.verif_frames().get(0)[0].to_bits() == second_oldest[0].to_bits());
            i += 1;
        }
        assert!(s.verif_idx() == if k < depth { k } else { depth });
        // index safety for every x in [0, 1): no underflow in nl - n, no panic
        if x_symbolic {
            let x: f64 = kani::any();
            kani::assume(x >= 0.0 && x < 1.0);
            let out = s.interpolate(x);
        } else {
            // quick tier: fixed positions (a symbolic x puts two f64 dividers per tap into the SAT problem)
            let out0 = s.interpolate(0.0);
            let out1 = s.interpolate(0.5);
        }
        // reset: the initial silent state
        s.reset();
        assert!(s.verif_idx() == 0);
        let j: usize = kani::any();
        kani::assume(j < LEN);
        assert!(s.verif_frames().get(j)[0] == 0.0);
        let (f0, _) = s.verif_frames().slices();
        assert!(f0.len() == LEN);           // first == 0 again

    }

    #[kani::proof] #[kani::stub(f64::sin, nd_trig)] #[kani::stub(f64::cos, nd_trig)] #[kani::unwind(8)] pub fn c18_b_sinc_d1_k0_xfixed() { run::<2, 0>(false) }
    #[kani::proof] #[kani::stub(f64::sin, nd_trig)] #[kani::stub(f64::cos, nd_trig)] #[kani::unwind(8)] pub fn c18_b_sinc_d1_k1_xfixed() { run::<2, 1>(false) }
    #[kani::proof] #[kani::stub(f64::sin, nd_trig)] #[kani::stub(f64::cos, nd_trig)] #[kani::unwind(8)] pub fn c18_b_sinc_d1_k2_xfixed() { run::<2, 2>(false) }
    #[kani::proof] #[kani::stub(f64::sin, nd_trig)] #[kani::stub(f64::cos, nd_trig)] #[kani::unwind(8)] pub fn c18_b_sinc_d1_k3_xfixed() { run::<2, 3>(false) }
    #[kani::proof] #[kani::stub(f64::sin, nd_trig)] #[kani::stub(f64::cos, nd_trig)] #[kani::unwind(10)] pub fn c18_b_sinc_d2_k0_xfixed() { run::<4, 0>(false) }
    #[kani::proof] #[kani::stub(f64::sin, nd_trig)] #[kani::stub(f64::cos, nd_trig)] #[kani::unwind(10)] pub fn c18_b_sinc_d2_k1_xfixed() { run::<4, 1>(false) }
    #[kani::proof] #[kani::stub(f64::sin, nd_trig)] #[kani::stub(f64::cos, nd_trig)] #[kani::unwind(10)] pub fn c18_b_sinc_d2_k2_xfixed() { run::<4, 2>(false) }
    #[kani::proof] #[kani::stub(f64::sin, nd_trig)] #[kani::stub(f64::cos, nd_trig)] #[kani::unwind(10)] pub fn c18_b_sinc_d2_k3_xfixed() { run::<4, 3>(false) }
    #[kani::proof] #[kani::stub(f64::sin, nd_trig)] #[kani::stub(f64::cos, nd_trig)] #[kani::unwind(10)] pub fn c18_b_sinc_d2_k4_xfixed() { run::<4, 4>(false) }
    #[kani::proof] #[kani::stub(f64::sin, nd_trig)] #[kani::stub(f64::cos, nd_trig)] #[kani::unwind(8)] pub fn c18_t_sinc_d1_k0() { run::<2, 0>(true) }
    #[kani::proof] #[kani::stub(f64::sin, nd_trig)] #[kani::stub(f64::cos, nd_trig)] #[kani::unwind(8)] pub fn c18_t_sinc_d1_k1() { run::<2, 1>(true) }
    #[kani::proof] #[kani::stub(f64::sin, nd_trig)] #[kani::stub(f64::cos, nd_trig)] #[kani::unwind(8)] pub fn c18_t_sinc_d1_k3() { run::<2, 3>(true) }
    #[kani::proof] #[kani::stub(f64::sin, nd_trig)] #[kani::stub(f64::cos, nd_trig)] #[kani::unwind(10)] pub fn c18_t_sinc_d2_k0() { run::<4, 0>(true) }
    #[kani::proof] #[kani::stub(f64::sin, nd_trig)] #[kani::stub(f64::cos, nd_trig)] #[kani::unwind(10)] pub fn c18_t_sinc_d2_k2() { run::<4, 2>(true) }
    #[kani::proof] #[kani::stub(f64::sin, nd_trig)] #[kani::stub(f64::cos, nd_trig)] #[kani::unwind(10)] pub fn c18_t_sinc_d2_k4() { run::<4, 4>(true) }
    #[kani::proof] #[kani::stub(f64::sin, nd_trig)] #[kani::stub(f64::cos, nd_trig)] #[kani::unwind(12)] pub fn c18_t_sinc_d3_k0_xfixed() { run::<6, 0>(false) }
    #[kani::proof] #[kani::stub(f64::sin, nd_trig)] #[kani::stub(f64::cos, nd_trig)] #[kani::unwind(12)] pub fn c18_t_sinc_d3_k3_xfixed() { run::<6, 3>(false) }
    #[kani::proof] #[kani::stub(f64::sin, nd_trig)] #[kani::stub(f64::cos, nd_trig)] #[kani::unwind(12)] pub fn c18_t_sinc_d3_k5_xfixed() { run::<6, 5>(false) }

    /// `new` rejects an odd number of frames
    #[kani::proof]
    #[kani::should_panic]
    pub fn c18_new_rejects_odd() {
        let s = Sinc::new(rb::Fixed::from([[0.0f64; 1]; 3]));
        kani::cover!(true, "MUST-BE-UNREACHABLE: Sinc::new accepted an odd length");
    }
}
