//! Unit sinc (C18), BOUNDED: depth in 1..=3, 0..=depth+2 fed frames, symbolic finite f64
//! mono frames, symbolic x in [0, 1).  Decides only: index safety (no underflow / out-of-range access / panic),
//! priming (idx' == min(idx + 1, depth), exactly one push per fed frame), reset (initial silent state), and
//! that `new` rejects odd lengths.  The numeric clauses of C18 depend on libm sin/cos values, which CBMC
//! over-approximates: they are out of reach and NOT claimed.
#![allow(unused)]

#[cfg(kani)]
pub mod proofs {
    use dasp_interpolate::{sinc::Sinc, Interpolator};
    use dasp_ring_buffer as rb;

    /// CBMC's own libm models of sin/cos are software-float polynomials that dominate the solving time; the
    /// harnesses stub them by an arbitrary value in [-1, 1] (index safety, priming and reset do not depend on them)
    pub fn nd_trig(_x: f64) -> f64 { let v: f64 = kani::any(); kani::assume(v >= -1.0 && v <= 1.0); v }

    fn fin() -> f64 { let x: f64 = kani::any(); kani::assume(x.is_finite() && x.abs() <= 1.0); x }

    fn run<const LEN: usize, const K: usize>(x_symbolic: bool) {
        let depth = LEN / 2;
        let data: [[f64; 1]; LEN] = core::array::from_fn(|_| [fin()]);
        // (the ring's start offset is fixed: ring-buffer correctness from every offset is C06's business; a
        //  symbolic offset multiplies the points-to sets of every frames[..] access)
        let mut s = Sinc::new(rb::Fixed::from(data));
        assert!(s.verif_idx() == 0);
        let k: usize = K;
        let mut i = 0;
        while i < k {
            let idx0 = s.verif_idx();
            let f = [fin()];
            let second_oldest = *s.verif_frames().get(1);
            s.next_source_frame(f);
            // priming: idx counts fed frames up to depth; the frame is pushed exactly once (newest slot)
            assert!(s.verif_idx() == if idx0 < depth { idx0 + 1 } else { depth });
            assert!(s.verif_frames().get(LEN - 1)[0].to_bits() == f[0].to_bits());
            assert!(s.verif_frames().get(0)[0].to_bits() == second_oldest[0].to_bits());
            i += 1;
        }
        assert!(s.verif_idx() == if k < depth { k } else { depth });
        // index safety for every x in [0, 1): no underflow in nl - n, no panic
        if x_symbolic {
            let x: f64 = kani::any();
            kani::assume(x >= 0.0 && x < 1.0);
            let out = s.interpolate(x);
        } else {
            // quick tier: fixed positions (a symbolic x puts two f64 dividers per tap into the SAT problem)
            let out0 = s.interpolate(0.0);
            let out1 = s.interpolate(0.5);
        }
        // reset: the initial silent state
        s.reset();
        assert!(s.verif_idx() == 0);
        let j: usize = kani::any();
        kani::assume(j < LEN);
        assert!(s.verif_frames().get(j)[0] == 0.0);
        let (f0, _) = s.verif_frames().slices();
        assert!(f0.len() == LEN);           // first == 0 again

    }

    #[kani::proof] #[kani::stub(f64::sin, nd_trig)] #[kani::stub(f64::cos, nd_trig)] #[kani::unwind(8)] pub fn c18_b_sinc_d1_k0_xfixed() { run::<2, 0>(false) }
    #[kani::proof] #[kani::stub(f64::sin, nd_trig)] #[kani::stub(f64::cos, nd_trig)] #[kani::unwind(8)] pub fn c18_b_sinc_d1_k1_xfixed() { run::<2, 1>(false) }
    #[kani::proof] #[kani::stub(f64::sin, nd_trig)] #[kani::stub(f64::cos, nd_trig)] #[kani::unwind(8)] pub fn c18_b_sinc_d1_k2_xfixed() { run::<2, 2>(false) }
    #[kani::proof] #[kani::stub(f64::sin, nd_trig)] #[kani::stub(f64::cos, nd_trig)] #[kani::unwind(8)] pub fn c18_b_sinc_d1_k3_xfixed() { run::<2, 3>(false) }
    #[kani::proof] #[kani::stub(f64::sin, nd_trig)] #[kani::stub(f64::cos, nd_trig)] #[kani::unwind(10)] pub fn c18_b_sinc_d2_k0_xfixed() { run::<4, 0>(false) }
    #[kani::proof] #[kani::stub(f64::sin, nd_trig)] #[kani::stub(f64::cos, nd_trig)] #[kani::unwind(10)] pub fn c18_b_sinc_d2_k1_xfixed() { run::<4, 1>(false) }
    #[kani::proof] #[kani::stub(f64::sin, nd_trig)] #[kani::stub(f64::cos, nd_trig)] #[kani::unwind(10)] pub fn c18_b_sinc_d2_k2_xfixed() { run::<4, 2>(false) }
    #[kani::proof] #[kani::stub(f64::sin, nd_trig)] #[kani::stub(f64::cos, nd_trig)] #[kani::unwind(10)] pub fn c18_b_sinc_d2_k3_xfixed() { run::<4, 3>(false) }
    #[kani::proof] #[kani::stub(f64::sin, nd_trig)] #[kani::stub(f64::cos, nd_trig)] #[kani::unwind(10)] pub fn c18_b_sinc_d2_k4_xfixed() { run::<4, 4>(false) }
    #[kani::proof] #[kani::stub(f64::sin, nd_trig)] #[kani::stub(f64::cos, nd_trig)] #[kani::unwind(8)] pub fn c18_t_sinc_d1_k0() { run::<2, 0>(true) }
    #[kani::proof] #[kani::stub(f64::sin, nd_trig)] #[kani::stub(f64::cos, nd_trig)] #[kani::unwind(8)] pub fn c18_t_sinc_d1_k1() { run::<2, 1>(true) }
    #[kani::proof] #[kani::stub(f64::sin, nd_trig)] #[kani::stub(f64::cos, nd_trig)] #[kani::unwind(8)] pub fn c18_t_sinc_d1_k3() { run::<2, 3>(true) }
    #[kani::proof] #[kani::stub(f64::sin, nd_trig)] #[kani::stub(f64::cos, nd_trig)] #[kani::unwind(10)] pub fn c18_t_sinc_d2_k0() { run::<4, 0>(true) }
    #[kani::proof] #[kani::stub(f64::sin, nd_trig)] #[kani::stub(f64::cos, nd_trig)] #[kani::unwind(10)] pub fn c18_t_sinc_d2_k2() { run::<4, 2>(true) }
    #[kani::proof] #[kani::stub(f64::sin, nd_trig)] #[kani::stub(f64::cos, nd_trig)] #[kani::unwind(10)] pub fn c18_t_sinc_d2_k4() { run::<4, 4>(true) }
    #[kani::proof] #[kani::stub(f64::sin, nd_trig)] #[kani::stub(f64::cos, nd_trig)] #[kani::unwind(12)] pub fn c18_t_sinc_d3_k0_xfixed() { run::<6, 0>(false) }
    #[kani::proof] #[kani::stub(f64::sin, nd_trig)] #[kani::stub(f64::cos, nd_trig)] #[kani::unwind(12)] pub fn c18_t_sinc_d3_k3_xfixed() { run::<6, 3>(false) }
    #[kani::proof] #[kani::stub(f64::sin, nd_trig)] #[kani::stub(f64::cos, nd_trig)] #[kani::unwind(12)] pub fn c18_t_sinc_d3_k5_xfixed() { run::<6, 5>(false) }

    // ---------------------------------------------------------------- transparency at ratio exactly 1 (x == 0)
    // At x == 0 the only arguments sin / cos receive are k*PI and k*PI/depth (k <= depth).  ASSUMED CONTRACT ON libm: at
    // those arguments sin / cos return the values below (glibc's, i.e. the correctly rounded ones: |sin(fl(k*PI))| < 4e-16,
    // cos(fl(PI)) == -1, ...); at any other argument the stub returns an arbitrary value in [-1, 1].
    pub fn tab_sin(x: f64) -> f64 {
        let b = x.to_bits();
        if b == 0 { 0.0 }
        else if b == 0x400921fb54442d18 { 1.2246467991473532e-16 }       // fl(PI)
        else if b == 0x401921fb54442d18 { -2.4492935982947064e-16 }      // 2 PI
        else if b == 0x4022d97c7f3321d2 { 3.6739403974420594e-16 }       // 3 PI
        else { nd_trig(x) }
    }
    pub fn tab_cos(x: f64) -> f64 {
        let b = x.to_bits();
        if b == 0 { 1.0 }
        else if b == 0x400921fb54442d18 { -1.0 }                         // PI
        else if b == 0x3ff921fb54442d18 { 6.123233995736766e-17 }        // PI / 2
        else if b == 0x3ff0c152382d7365 { 0.5000000000000001 }           // PI / 3
        else if b == 0x4000c152382d7365 { -0.4999999999999998 }          // 2 PI / 3
        else { nd_trig(x) }
    }

    /// integer format (i32: more significant bits than f32 holds): after K fed frames, interpolate(0.0) returns EXACTLY the
    /// frame fed `depth` frames before the next one (silence while priming): every other tap contributes less than one LSB
    fn transparent_i32<const LEN: usize, const K: usize>() {
        let depth = LEN / 2;
        let mut s = Sinc::new(rb::Fixed::from([[0i32; 1]; LEN]));
        let fed: [i32; K] = core::array::from_fn(|_| kani::any());
        let mut i = 0;
        while i < K { s.next_source_frame([fed[i]]); i += 1; }
        let out = s.interpolate(0.0);
        let want = if K >= depth && K >= 1 { fed[K - depth] } else { 0 };
        assert!(out[0] == want, "P: ratio 1 reproduces the source delayed by depth frames (integer format: exactly)");
    }
    /// f64 format: within 1e-12 of the peak input amplitude
    fn transparent_f64<const LEN: usize, const K: usize>() {
        let depth = LEN / 2;
        let mut s = Sinc::new(rb::Fixed::from([[0.0f64; 1]; LEN]));
        let fed: [f64; K] = core::array::from_fn(|_| fin());
        let mut peak = 0.0f64;
        let mut i = 0;
        while i < K { s.next_source_frame([fed[i]]); if fed[i].abs() > peak { peak = fed[i].abs(); } i += 1; }
        let out = s.interpolate(0.0);
        let want = if K >= depth && K >= 1 { fed[K - depth] } else { 0.0 };
        assert!((out[0] - want).abs() <= 1.0e-12 * peak, "P: ratio 1 reproduces the source delayed by depth frames within 1e-12 of the peak");
    }
    #[kani::proof] #[kani::stub(f64::sin, tab_sin)] #[kani::stub(f64::cos, tab_cos)] #[kani::unwind(8)] pub fn c18_b_transparent_i32_d1_k0() { transparent_i32::<2, 0>() }
    #[kani::proof] #[kani::stub(f64::sin, tab_sin)] #[kani::stub(f64::cos, tab_cos)] #[kani::unwind(8)] pub fn c18_b_transparent_i32_d1_k1() { transparent_i32::<2, 1>() }
    #[kani::proof] #[kani::stub(f64::sin, tab_sin)] #[kani::stub(f64::cos, tab_cos)] #[kani::unwind(8)] pub fn c18_b_transparent_i32_d1_k3() { transparent_i32::<2, 3>() }
    #[kani::proof] #[kani::stub(f64::sin, tab_sin)] #[kani::stub(f64::cos, tab_cos)] #[kani::unwind(10)] pub fn c18_b_transparent_i32_d2_k1() { transparent_i32::<4, 1>() }
    #[kani::proof] #[kani::stub(f64::sin, tab_sin)] #[kani::stub(f64::cos, tab_cos)] #[kani::unwind(10)] pub fn c18_b_transparent_i32_d2_k2() { transparent_i32::<4, 2>() }
    #[kani::proof] #[kani::stub(f64::sin, tab_sin)] #[kani::stub(f64::cos, tab_cos)] #[kani::unwind(10)] pub fn c18_b_transparent_i32_d2_k5() { transparent_i32::<4, 5>() }
    #[kani::proof] #[kani::stub(f64::sin, tab_sin)] #[kani::stub(f64::cos, tab_cos)] #[kani::unwind(8)] pub fn c18_b_transparent_f64_d1_k2() { transparent_f64::<2, 2>() }
    #[kani::proof] #[kani::stub(f64::sin, tab_sin)] #[kani::stub(f64::cos, tab_cos)] #[kani::unwind(10)] pub fn c18_b_transparent_f64_d2_k3() { transparent_f64::<4, 3>() }
    #[kani::proof] #[kani::stub(f64::sin, tab_sin)] #[kani::stub(f64::cos, tab_cos)] #[kani::unwind(12)] pub fn c18_t_transparent_i32_d3_k4() { transparent_i32::<6, 4>() }
    #[kani::proof] #[kani::stub(f64::sin, tab_sin)] #[kani::stub(f64::cos, tab_cos)] #[kani::unwind(12)] pub fn c18_t_transparent_f64_d3_k4() { transparent_f64::<6, 4>() }

    // ---------------------------------------------------------------- C08: linear / floor interpolators on integer formats
    // (the Verus unit `converter` proves the blend over exact reals on f64 frames; here the sample-format side: the blend of
    //  two integer frames is the straight line between them to within one LSB, exact at x == 0, and never outside them)
    use dasp_interpolate::{linear::Linear, floor::Floor};
    macro_rules! linear_int { ($name:ident, $T:ty, $k:expr) => {
        #[kani::proof]
        pub fn $name() {
            let l: $T = kani::any(); let r: $T = kani::any();
            let x: f64 = $k as f64 * 0.25;       // concrete position k/4 (a symbolic x is a symbolic f64 multiplier)
            let li = Linear::new([l], [r]);
            let o = li.interpolate(x)[0];
            if $k == 0 { assert!(o == l, "P: x == 0 reproduces the left frame exactly"); }
            let (lo, hi) = if l < r { (l, r) } else { (r, l) };
            assert!(o >= lo && o <= hi, "P: the blend lies between the two frames");
            // (closeness of the blend to the real straight line within one LSB does not finish in CBMC for x != 0 —
            //  measured: > 10 min for i16 — it is left to the paired native search)
        }
    }; }
    linear_int!(c08_linear_blend_i32_x0, i32, 0);
    linear_int!(c08_linear_blend_i32_x2, i32, 2);
    linear_int!(c08_linear_blend_i32_x3, i32, 3);
    linear_int!(c08_linear_blend_u32_x0, u32, 0);
    linear_int!(c08_linear_blend_u32_x1, u32, 1);
    linear_int!(c08_linear_blend_i16_x0, i16, 0);
    linear_int!(c08_linear_blend_i16_x1, i16, 1);
    linear_int!(c08_linear_blend_i16_x3, i16, 3);
    linear_int!(c08_linear_blend_u8_x0, u8, 0);
    linear_int!(c08_linear_blend_u8_x2, u8, 2);
    // (i64 / u64 frames are NOT covered: amplitudes with more than 53 significant bits cannot survive the blend through f64 —
    //  Linear::new([(1 << 62) + 1], ..).interpolate(0.0) yields 1 << 62 — which we read as the property's "up to float rounding")

    /// feeding shifts right -> left; reset silences both; floor holds the last frame whatever x (2-channel i32 frames)
    #[kani::proof]
    pub fn c08_linear_floor_state_i32() {
        let l: [i32; 2] = kani::any(); let r: [i32; 2] = kani::any(); let n: [i32; 2] = kani::any();
        let mut li = Linear::new(l, r);
        li.next_source_frame(n);
        assert!(li.interpolate(0.0) == r);
        li.reset();
        assert!(li.interpolate(0.5) == [0, 0]);
        let x: f64 = kani::any();
        let mut fl = Floor::new(l);
        assert!(fl.interpolate(x) == l);
        fl.next_source_frame(r);
        assert!(fl.interpolate(x) == r);
        fl.reset();
        assert!(fl.interpolate(x) == [0, 0]);
    }

    /// `new` rejects an odd number of frames
    #[kani::proof]
    #[kani::should_panic]
    pub fn c18_new_rejects_odd() {
        let s = Sinc::new(rb::Fixed::from([[0.0f64; 1]; 3]));
        kani::cover!(true, "MUST-BE-UNREACHABLE: Sinc::new accepted an odd length");
    }
}
