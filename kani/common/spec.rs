//! Specification functions shared by the Kani units (loop-free integer code over i128).
//! They are written from the property statements, not from the code under test.
#![allow(dead_code)]
use dasp_sample::{I24, I48, U24, U48};

/// A sample format as the properties see it: a width and a raw integer value.
pub trait Fmt: Copy {
    const BITS: u32;
    const UNSIGNED: bool;
    /// raw integer value of the sample
    fn raw(&self) -> i128;
    /// type invariant (always true for primitives)
    fn valid(&self) -> bool {
        let r = self.raw();
        if Self::UNSIGNED { 0 <= r && r < (1i128 << Self::BITS) } else { -(1i128 << (Self::BITS - 1)) <= r && r < (1i128 << (Self::BITS - 1)) }
    }
    /// signed amplitude: value minus half-range for unsigned formats
    fn amp(&self) -> i128 {
        if Self::UNSIGNED { self.raw() - (1i128 << (Self::BITS - 1)) } else { self.raw() }
    }
    /// a symbolic value of the type (possibly violating the invariant: callers assume `valid`)
    #[cfg(kani)]
    fn any() -> Self;
}

macro_rules! prim_fmt {
    ($($t:ty, $bits:expr, $uns:expr;)*) => {$(
        impl Fmt for $t {
            const BITS: u32 = $bits;
            const UNSIGNED: bool = $uns;
            fn raw(&self) -> i128 { *self as i128 }
            #[cfg(kani)]
            fn any() -> Self { kani::any() }
        }
    )*};
}
prim_fmt! { i8, 8, false; i16, 16, false; i32, 32, false; i64, 64, false; u8, 8, true; u16, 16, true; u32, 32, true; u64, 64, true; }

macro_rules! wrap_fmt {
    ($($t:ident, $rep:ty, $bits:expr, $uns:expr;)*) => {$(
        impl Fmt for $t {
            const BITS: u32 = $bits;
            const UNSIGNED: bool = $uns;
            fn raw(&self) -> i128 { self.inner() as i128 }
            #[cfg(kani)]
            fn any() -> Self { $t::new_unchecked(kani::any::<$rep>()) }
        }
    )*};
}
wrap_fmt! { I24, i32, 24, false; U24, i32, 24, true; I48, i64, 48, false; U48, i64, 48, true; }

/// C01: amplitude * 2^(db - sb), rounded toward negative infinity when narrowing.
pub fn rescale(a: i128, sb: u32, db: u32) -> i128 {
    if db >= sb { a << (db - sb) } else { a >> (sb - db) }
}

pub fn amp_in_range(a: i128, bits: u32) -> bool {
    -(1i128 << (bits - 1)) <= a && a < (1i128 << (bits - 1))
}

/// number of significant bits of |a|
pub fn bitlen(a: u128) -> u32 { 128 - a.leading_zeros() }

/// round the integer `a` to `p` significant bits, ties to even (the value an int->float cast yields)
pub fn round_sig(a: i128, p: u32) -> i128 {
    let neg = a < 0;
    let m: u128 = if neg { (-a) as u128 } else { a as u128 };
    let n = bitlen(m);
    if n <= p { return a; }
    let sh = n - p;
    let q = m >> sh;
    let rem = m & ((1u128 << sh) - 1);
    let half = 1u128 << (sh - 1);
    let up = rem > half || (rem == half && (q & 1) == 1);
    let r = ((q + if up { 1 } else { 0 }) << sh) as i128;
    if neg { -r } else { r }
}

/// exact value of a finite f64 as m * 2^e
pub fn decomp64(x: f64) -> (i128, i32) {
    let b = x.to_bits();
    let neg = (b >> 63) != 0;
    let e = ((b >> 52) & 0x7ff) as i32;
    let f = (b & ((1u64 << 52) - 1)) as i128;
    let (m, ex) = if e == 0 { (f, -1074) } else { (f | (1i128 << 52), e - 1075) };
    (if neg { -m } else { m }, ex)
}

/// exact value of a finite f32 as m * 2^e
pub fn decomp32(x: f32) -> (i128, i32) {
    let b = x.to_bits();
    let neg = (b >> 31) != 0;
    let e = ((b >> 23) & 0xff) as i32;
    let f = (b & ((1u32 << 23) - 1)) as i128;
    let (m, ex) = if e == 0 { (f, -149) } else { (f | (1i128 << 23), e - 150) };
    (if neg { -m } else { m }, ex)
}

/// m * 2^(e+k) truncated toward zero (requires the result to fit i128: e + k < 64 for |m| < 2^53)
pub fn trunc_scaled(m: i128, e: i32, k: i32) -> i128 {
    let sh = e + k;
    if sh >= 0 {
        m << (sh as u32)
    } else {
        let s = (-sh) as u32;
        if s >= 127 { 0 } else {
            let a = if m < 0 { -m } else { m };
            let q = a >> s;
            if m < 0 { -q } else { q }
        }
    }
}

/// m * 2^(e+k) if that is an integer (None otherwise)
pub fn exact_scaled(m: i128, e: i32, k: i32) -> Option<i128> {
    let sh = e + k;
    if sh >= 0 {
        if sh > 70 { return None; }
        Some(m << (sh as u32))
    } else {
        let s = (-sh) as u32;
        if m == 0 { return Some(0); }
        if s >= 127 { return None; }
        let a = if m < 0 { -m } else { m };
        if (a >> s) << s != a { return None; }
        let q = a >> s;
        Some(if m < 0 { -q } else { q })
    }
}

/// canonical (odd mantissa, exponent) form of m * 2^e, (0, 0) for zero
pub fn canon(m: i128, e: i32) -> (i128, i32) {
    if m == 0 { return (0, 0); }
    let tz = m.trailing_zeros();
    (m >> tz, e + tz as i32)
}

/// a / 2^k truncated toward zero
pub fn trunc_div_pow2(a: i128, k: u32) -> i128 {
    let m = if a < 0 { -a } else { a };
    let q = m >> k;
    if a < 0 { -q } else { q }
}
