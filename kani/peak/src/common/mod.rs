pub mod spec;
