//! Unit envelope (C19 one-pole follower, C11 running RMS window), bit-precise.
//!
//! * Detector::next from EVERY envelope state: the harness reads the two gains through the guarded hook
//!   Detector::verif_gains, so the update rule is checked for whatever gains `calc_gain` produced (powf is
//!   libm: its value is not verified, only that a time of 0 frames gives gain 0 and the rule uses the right gain).
//!   Inputs are dyadic (k/64, |k| <= 64) so that l - d is exact; the gain is any f32 in [0, 1).
//! * Rms: window lengths 1..=3, every ring offset reachable by pushes, histories of up to N+2 frames with an
//!   optional reset, dyadic samples (k/8): all squares, sums and differences are exact in f32, so the output must
//!   EQUAL the mean of the last N squares (earlier ones counted as 0).  Bounded in N and history length.
#![allow(unused)]

#[cfg(kani)]
pub mod proofs {
    use dasp_envelope::Detector;
    use dasp_frame::Frame;
    use dasp_ring_buffer as rb;
    use dasp_rms::Rms;

    fn dyadic(den: i32, max: i32) -> f32 { let k: i32 = kani::any(); kani::assume(k >= -max && k <= max); k as f32 / den as f32 }

    /// a time of 0 frames gives gain exactly 0: the envelope equals the detected value
    #[kani::proof]
    pub fn c19_zero_time_follows_input() {
        let mut det: Detector<[f32; 1], _> = Detector::peak(0.0, 0.0);
        assert!(det.verif_gains() == (0.0, 0.0));
        let x = dyadic(64, 64);
        let e = det.next([x]);
        assert!(e[0] == x.abs());
        let y = dyadic(64, 64);
        let e2 = det.next([y]);
        assert!(e2[0] == y.abs());
    }

    /// the frames -> gain mapping: 0 only for exactly 0 frames; for any time >= 1/8 frame the gain exp(-1/frames) is
    /// strictly between 0 and 1 (the VALUE of powf is libm and not verified, only this range)
    #[kani::proof]
    pub fn c19_gain_mapping() {
        let fa: f32 = kani::any(); let fr: f32 = kani::any();
        kani::assume(fa >= 0.125 && fa <= 1.0e6 && fr >= 0.125 && fr <= 1.0e6);
        let mut det: Detector<[f32; 1], _> = Detector::peak(fa, fr);
        let (ga, gr) = det.verif_gains();
        assert!(ga > 0.0 && ga < 1.0, "P: positive attack time must give a gain in (0,1)");
        assert!(gr > 0.0 && gr < 1.0, "P: positive release time must give a gain in (0,1)");
        det.set_attack_frames(0.0);
        assert!(det.verif_gains().0 == 0.0);
        let f2: f32 = kani::any();
        kani::assume(f2 >= 0.125 && f2 <= 1.0e6);
        det.set_release_frames(f2);
        let g2 = det.verif_gains().1;
        assert!(g2 > 0.0 && g2 < 1.0);
    }

    /// the one-pole update from every envelope state and every pair of gains in [0,1):
    /// env' == d + g * (env - d) with g = attack if env < d else release; env' lies between env and d;
    /// the stored envelope is the returned one
    #[kani::proof]
    pub fn c19_t_one_pole_update() {
        let mut det: Detector<[f32; 1], _> = Detector::peak(3.0, 7.0);
        let (ga, gr) = det.verif_gains();
        kani::assume(ga >= 0.0 && ga < 1.0 && gr >= 0.0 && gr < 1.0);      // any values powf may have produced in range
        // drive the detector into an arbitrary dyadic state with a zero-time step is not possible without changing
        // gains, so reach states by one step from 0 and check the step relation on the second step
        let x1 = dyadic(64, 64);
        let e1 = det.next([x1])[0];
        let l = det.verif_last_env()[0];
        assert!(l.to_bits() == e1.to_bits());                               // the returned envelope is stored
        let d1 = x1.abs();
        let g1 = if 0.0 < d1 { ga } else { gr };
        assert!(e1.to_bits() == (d1 + (0.0 - d1) * g1).to_bits());
        let x2 = dyadic(64, 64);
        let d2 = x2.abs();
        let e2 = det.next([x2])[0];
        let g2 = if l < d2 { ga } else { gr };
        assert!(e2.to_bits() == (d2 + (l - d2) * g2).to_bits());
        assert!(det.verif_last_env()[0].to_bits() == e2.to_bits());
    }

    /// the gain is chosen PER CHANNEL: 2-channel frames, second step from every state reachable by one dyadic input frame (k/4, |k| <= 4);
    /// the update rule is checked bit-precisely on both channels.  Attack and release times are concrete (0 / 7 frames and
    /// 3 / 0 frames): the gains are whatever calc_gain produced for them (read through the hook; one of them exactly 0),
    /// the selection logic does not depend on their values (arbitrary-state mono rule: c19_t_one_pole_update)
    fn per_channel(fa: f32, fr: f32, exact: bool) {
        let mut det: Detector<[f32; 2], _> = Detector::peak(fa, fr);
        let (ga, gr) = det.verif_gains();
        assert!(ga != gr);
        let x1 = [dyadic(4, 4), dyadic(4, 4)];
        let e1 = det.next(x1);
        let l = det.verif_last_env();
        assert!(l[0].to_bits() == e1[0].to_bits() && l[1].to_bits() == e1[1].to_bits());
        let x2 = [dyadic(4, 4), dyadic(4, 4)];
        let e2 = det.next(x2);
        let mut c = 0;
        while c < 2 {
            let d = x2[c].abs();
            let g = if l[c] < d { ga } else { gr };
            if exact || g == 0.0 {
                assert!(e2[c].to_bits() == (d + (l[c] - d) * g).to_bits(), "P: per-channel one-pole update with per-channel attack/release choice");
            } else {
                // non-dyadic state times a non-dyadic gain: the duplicate product does not finish in CBMC; check that the
                // non-zero gain was used (the envelope did not jump to the detected value) and no overshoot
                assert!(if l[c] < d { e2[c] >= l[c] && e2[c] < d } else { e2[c] <= l[c] && (e2[c] > d || l[c] == d) }, "P: per-channel gain choice (between-ness, non-zero gain used)");
            }
            c += 1;
        }
        kani::cover!(l[0] < x2[0].abs() && l[1] > x2[1].abs(), "one channel rising while the other falls");
        kani::cover!(l[0] > x2[0].abs() && l[1] < x2[1].abs(), "one channel falling while the other rises");
    }
    #[kani::proof] #[kani::unwind(3)] pub fn c19_per_channel_gain_attack0() { per_channel(0.0, 7.0, true) }
    #[kani::proof] #[kani::unwind(3)] pub fn c19_per_channel_gain_release0() { per_channel(3.0, 0.0, false) }

    /// every constructor maps (attack_frames, release_frames) to (attack gain, release gain) IN THAT ORDER: a time of 0 frames
    /// gives gain exactly 0, any other time a non-zero gain (c19_gain_mapping), so swapped arguments are observable
    #[kani::proof]
    pub fn c19_constructors_keep_attack_and_release_apart() {
        use dasp_envelope::detect::Peak;
        use dasp_peak::{FullWave, NegativeHalfWave, PositiveHalfWave};
        macro_rules! both { ($mk:expr) => {{
            let mk = $mk;
            let d = mk(0.0f32, 7.0f32);
            let (ga, gr) = d.verif_gains();
            assert!(ga == 0.0 && gr != 0.0, "P: attack = 0 frames, release = 7 frames");
            let d = mk(3.0f32, 0.0f32);
            let (ga, gr) = d.verif_gains();
            assert!(ga != 0.0 && gr == 0.0, "P: attack = 3 frames, release = 0 frames");
        }}; }
        both!(|a, r| Detector::<[f32; 1], _>::peak(a, r));
        both!(|a, r| Detector::<[f32; 1], _>::peak_positive_half_wave(a, r));
        both!(|a, r| Detector::<[f32; 1], _>::peak_negative_half_wave(a, r));
        both!(|a, r| Detector::<[f32; 1], _>::peak_from_rectifier(FullWave, a, r));
        both!(|a, r| Detector::<[f32; 1], _>::peak_from_rectifier(NegativeHalfWave, a, r));
        both!(|a, r| Detector::<[f32; 1], _>::new(Peak::positive_half_wave(), a, r));
        both!(|a, r| Detector::<[f32; 1], _>::rms(rb::Fixed::from([[0.0f32; 1]; 2]), a, r));
        // the rectifier chosen by the named constructor is the named one (negative half wave keeps the negative side)
        let mut n = Detector::<[f32; 1], _>::peak_negative_half_wave(0.0, 0.0);
        let x = dyadic(4, 4);
        assert!(n.next([x])[0] == if x < 0.0 { x } else { 0.0 });
        let mut p = Detector::<[f32; 1], _>::peak_positive_half_wave(0.0, 0.0);
        assert!(p.next([x])[0] == if x > 0.0 { x } else { 0.0 });
        let mut f = Detector::<[f32; 1], _>::peak(0.0, 0.0);
        assert!(f.next([x])[0] == x.abs());
    }

    /// a detector cloned mid-stream carries the whole state: gains, previous envelope (and so the same next output)
    #[kani::proof]
    pub fn c19_clone_keeps_state() {
        let mut det: Detector<[f32; 2], _> = Detector::peak(0.0, 7.0);
        let x = [dyadic(4, 4), dyadic(4, 4)];
        let _ = det.next(x);
        let mut cl = det.clone();
        assert!(cl.verif_gains() == det.verif_gains(), "P: clone keeps the gains");
        let (a, b) = (cl.verif_last_env(), det.verif_last_env());
        assert!(a[0].to_bits() == b[0].to_bits() && a[1].to_bits() == b[1].to_bits(), "P: clone keeps the previous envelope");
        let y = [0.0f32, 0.0];
        let (o1, o2) = (cl.next(y), det.next(y));
        assert!(o1[0].to_bits() == o2[0].to_bits() && o1[1].to_bits() == o2[1].to_bits(), "P: a clone continues exactly like the original");
    }

    /// no overshoot: for dyadic previous envelope and detected value (exact difference) the new envelope lies
    /// between them, and equals the detected value when the gain is 0
    #[kani::proof]
    pub fn c19_between_prev_and_detected() {
        let l = dyadic(64, 64).abs(); let d = dyadic(64, 64).abs();
        let g: f32 = kani::any();
        kani::assume(g >= 0.0 && g < 1.0);
        let e = d + (l - d) * g;             // the rule proved above, in f32
        let lo = if l < d { l } else { d }; let hi = if l < d { d } else { l };
        assert!(e >= lo && e <= hi);
        if g == 0.0 { assert!(e == d); }
    }

    /// changing attack / release mid-stream changes only that gain and only subsequent frames
    #[kani::proof]
    pub fn c19_set_times_affect_only_subsequent() {
        let mut det: Detector<[f32; 1], _> = Detector::peak(3.0, 7.0);
        let x = dyadic(64, 64);
        let e1 = det.next([x])[0];
        let (ga, gr) = det.verif_gains();
        det.set_attack_frames(0.0);
        assert!(det.verif_gains() == (0.0, gr));
        assert!(det.verif_last_env()[0].to_bits() == e1.to_bits());       // past output untouched
        det.set_release_frames(0.0);
        assert!(det.verif_gains() == (0.0, 0.0));
        assert!(det.verif_last_env()[0].to_bits() == e1.to_bits());
        let y = dyadic(64, 64);
        assert!(det.next([y])[0] == y.abs());
    }

    // -------------------------------------------------------------------- signal adaptors (C19 / C11 adaptor clauses)
    use dasp_signal::{self as signal, Signal, envelope::SignalEnvelope, rms::SignalRms};
    /// a source that counts how often it is pulled (frames are symbolic dyadic values)
    struct Counted { frames: [[f32; 1]; 3], pos: usize }
    impl Signal for Counted {
        type Frame = [f32; 1];
        fn next(&mut self) -> [f32; 1] { let f = if self.pos < 3 { self.frames[self.pos] } else { [0.0] }; self.pos += 1; f }
        fn is_exhausted(&self) -> bool { self.pos >= 3 }
    }
    /// detect_envelope feeds EACH source frame once, in order, to the detector and yields what the detector returns;
    /// changing attack / release through the adaptor reaches the detector; exhaustion is the source's
    #[kani::proof] #[kani::unwind(5)]
    pub fn c19_adaptor_detect_envelope() {
        let frames = [[dyadic(4, 4)], [dyadic(4, 4)], [dyadic(4, 4)]];
        // ONE detector, cloned: CBMC over-approximates powf nondeterministically, two constructions may get different gains
        let det: Detector<[f32; 1], _> = Detector::peak(0.0, 7.0);
        let mut direct = det.clone();
        let mut ad = Counted { frames, pos: 0 }.detect_envelope(det);
        let mut i = 0;
        while i < 3 {
            assert!(ad.is_exhausted() == false);
            if i == 2 { ad.set_release_frames(0.0); direct.set_release_frames(0.0); }
            let a = ad.next(); let d = direct.next(frames[i]);
            assert!(a[0].to_bits() == d[0].to_bits(), "P: adaptor output == detector output for the i-th source frame");
            i += 1;
        }
        assert!(ad.is_exhausted());
        // an exhausted source keeps yielding equilibrium frames: they are input like any other
        let a = ad.next(); let d = direct.next([0.0]);
        assert!(a[0].to_bits() == d[0].to_bits(), "P: after exhaustion the adaptor keeps feeding (equilibrium) source frames to the detector");
        let (src, det) = ad.into_parts();
        assert!(src.pos == 4, "P: exactly one source frame pulled per output");
        assert!(det.verif_gains() == direct.verif_gains() && det.verif_last_env()[0].to_bits() == direct.verif_last_env()[0].to_bits());
    }
    /// never negative, never NaN: i16 frames (float companion f32, squares NOT exact: rounding can absorb a small square into a
    /// large running sum), window 2, every history x1, x2, 0, 0 — the running sum of squares must not go below zero when the
    /// large square leaves the window
    #[kani::proof] #[kani::unwind(6)]
    pub fn c11_b_rms_never_negative_i16() {
        let mut r: Rms<[i16; 1], [[f32; 1]; 2]> = Rms::new(rb::Fixed::from([[0.0f32; 1]; 2]));
        let x1: i16 = kani::any(); let x2: i16 = kani::any();
        let hist = [x1, x2, 0, 0];
        let mut i = 0;
        while i < 4 {
            let sq = r.next_squared([hist[i]])[0];
            assert!(sq >= 0.0, "P: mean square negative");
            let rms = r.current()[0];
            assert!(rms >= 0.0 && !rms.is_nan(), "P: RMS negative or NaN for finite input");
            i += 1;
        }
        kani::cover!(x1 == i16::MIN && x2 == 1, "large then tiny sample");
    }

    /// the rms adaptor feeds EACH source frame once, in order, to the running RMS
    #[kani::proof] #[kani::unwind(7)]
    pub fn c11_adaptor_rms() {
        let frames = [[dyadic(8, 8)], [dyadic(8, 8)], [dyadic(8, 8)]];
        let mut direct: Rms<[f32; 1], [[f32; 1]; 2]> = Rms::new(rb::Fixed::from([[0.0f32; 1]; 2]));
        let mut ad = Counted { frames, pos: 0 }.rms(rb::Fixed::from([[0.0f32; 1]; 2]));
        let a0 = ad.next(); let d0 = direct.next(frames[0]);
        assert!(a0[0].to_bits() == d0[0].to_bits(), "P: adaptor output == running RMS of the source frames");
        let a1 = ad.next_squared(); let d1 = direct.next_squared(frames[1]);
        assert!(a1[0].to_bits() == d1[0].to_bits(), "P: adaptor next_squared == running mean square of the source frames");
        assert!(!ad.is_exhausted());
        let a2 = ad.next(); let d2 = direct.next(frames[2]);
        assert!(a2[0].to_bits() == d2[0].to_bits(), "P: adaptor output == running RMS of the source frames");
        assert!(ad.is_exhausted());
        // an exhausted source keeps yielding equilibrium frames: they enter the window like any other (the RMS decays)
        let a3 = ad.next(); let d3 = direct.next([0.0]);
        assert!(a3[0].to_bits() == d3[0].to_bits(), "P: after exhaustion the adaptor keeps feeding (equilibrium) source frames to the window");
        let a4 = ad.next_squared(); let d4 = direct.next_squared([0.0]);
        assert!(a4[0].to_bits() == d4[0].to_bits(), "P: after exhaustion the adaptor keeps feeding (equilibrium) source frames to the window");
        let (src, _r) = ad.into_parts();
        assert!(src.pos == 5, "P: exactly one source frame pulled per output");
    }

    // -------------------------------------------------------------------- windowed RMS (C11)
    fn mean_sq(h: &[f32], n: usize, upto: usize) -> f32 {
        let mut s = 0.0f32; let mut i = 0;
        while i < n { if upto >= 1 + i { let v = h[upto - 1 - i]; s += v * v; } i += 1; }
        s / n as f32
    }
    fn rms_run<const N: usize, const H: usize>() {
        let mut rms: Rms<[f32; 1], [[f32; 1]; N]> = Rms::new(rb::Fixed::from([[0.0f32; 1]; N]));
        assert!(rms.window_frames() == N);
        let mut hist = [0.0f32; H];
        let reset_at: usize = kani::any();
        let mut k = 0usize;         // frames since the last reset
        let mut i = 0usize;
        while i < H {
            if i == reset_at { rms.reset(); k = 0; assert!(rms.current()[0] == 0.0); }
            let x = dyadic(8, 8);
            hist[k] = x;
            k += 1;
            let sq = rms.next_squared([x])[0];
            let want = mean_sq(&hist, N, k);
            assert!(sq == want, "P: windowed mean of squares wrong");
            assert!(sq >= 0.0);
            let c = rms.current()[0];
            assert!(c >= 0.0 && c * c <= want * 1.0001 + 1e-12 && c * c >= want * 0.9999 - 1e-12);
            i += 1;
        }
    }
    /// "a reset restores the all-zero state" from ANY window content: a detector built over a ring that still holds
    /// (dyadic) samples has square_sum == 0 with a non-zero window; after reset() it must behave as freshly zeroed
    #[kani::proof] #[kani::unwind(8)]
    pub fn c11_b_rms_reset_from_dirty_window() {
        let dirty: [[f32; 1]; 2] = [[dyadic(8, 8)], [dyadic(8, 8)]];
        let mut rms: Rms<[f32; 1], [[f32; 1]; 2]> = Rms::new(rb::Fixed::from(dirty));
        rms.reset();
        assert!(rms.current()[0] == 0.0);
        let x = dyadic(8, 8); let y = dyadic(8, 8); let z = dyadic(8, 8);
        assert!(rms.next_squared([x])[0] == (x * x) / 2.0, "P: reset did not clear the window");
        assert!(rms.next_squared([y])[0] == (y * y + x * x) / 2.0, "P: reset did not clear the window");
        assert!(rms.next_squared([z])[0] == (z * z + y * y) / 2.0, "P: reset did not clear the window");
    }
    #[kani::proof] #[kani::unwind(8)] pub fn c11_b_rms_n1() { rms_run::<1, 3>() }
    #[kani::proof] #[kani::unwind(8)] pub fn c11_t_rms_n2() { rms_run::<2, 4>() }
    #[kani::proof] #[kani::unwind(9)] pub fn c11_t_rms_n3() { rms_run::<3, 5>() }
}
