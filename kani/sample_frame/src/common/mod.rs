pub mod spec;
