//! Unit sqrt_nostd (C11): the no_std square-root approximations reached through FloatSample::sample_sqrt
//! (dasp_sample built with default-features = false).  Every comparison is done on exact (mantissa, exponent)
//! decompositions in integer arithmetic; nothing is computed in floating point by the oracle.
#![allow(unused)]

/// exact value of a finite positive f32 / f64 as m * 2^e
pub fn dec32(x: f32) -> (u128, i32) {
    let b = x.to_bits(); let e = ((b >> 23) & 0xff) as i32; let f = (b & 0x7f_ffff) as u128;
    if e == 0 { (f, -149) } else { (f | (1 << 23), e - 150) }
}
pub fn dec64(x: f64) -> (u128, i32) {
    let b = x.to_bits(); let e = ((b >> 52) & 0x7ff) as i32; let f = (b & ((1u64 << 52) - 1)) as u128;
    if e == 0 { (f, -1074) } else { (f | (1 << 52), e - 1075) }
}

/// is  num * (mr^2 * 2^(2 er))  <=  den * (mx * 2^ex) ?   (all operands exact; shifts bounded by the caller's domain)
pub fn le_scaled(num: u128, mr: u128, er: i32, den: u128, mx: u128, ex: i32) -> bool {
    let l = num * mr * mr; let r = den * mx;
    let d = 2 * er - ex;
    if d >= 0 { if d > 12 { return l == 0; } (l << (d as u32)) <= r }
    else { let s = (-d) as u32; if s > 62 { return true; } l <= (r << s) }
}

#[cfg(kani)]
pub mod proofs {
    use super::*;
    use dasp_sample::FloatSample;

    /// f32: for every normal x >= 0:  0.93^2 x <= r^2 <= 1.07^2 x  (i.e. r within 7 % of the root)
    #[kani::proof]
    pub fn c11_sqrt_f32_nostd() {
        let x: f32 = kani::any();
        kani::assume(x.is_finite() && x >= f32::MIN_POSITIVE);
        let r = x.sample_sqrt();
        assert!(r.is_finite() && r > 0.0);
        let (mx, ex) = dec32(x); let (mr, er) = dec32(r);
        assert!(le_scaled(10000, mr, er, 11449, mx, ex), "P: sqrt above 1.07 * root");
        assert!(!le_scaled(10000, mr, er, 8648, mx, ex), "P: sqrt below 0.93 * root");
    }
    /// zero and subnormals: negligible absolute value
    #[kani::proof]
    pub fn c11_sqrt_f32_nostd_tiny() {
        let x: f32 = kani::any();
        // (-0.0 excluded: a mean of squares is never negative zero)
        kani::assume(x >= 0.0 && x.is_sign_positive() && x < f32::MIN_POSITIVE);
        let r = x.sample_sqrt();
        assert!(r >= 0.0 && r <= 1e-18);
        let n: f32 = kani::any();
        kani::assume(n < 0.0);
        assert!(n.sample_sqrt().is_nan());
    }
    #[kani::proof]
    pub fn c11_sqrt_f64_nostd() {
        let x: f64 = kani::any();
        kani::assume(x.is_finite() && x >= f64::MIN_POSITIVE);
        let r = x.sample_sqrt();
        assert!(r.is_finite() && r > 0.0);
        let (mx, ex) = dec64(x); let (mr, er) = dec64(r);
        // keep the 106-bit square within u128: compare on the top 40 bits of r's mantissa (relative error 2^-39)
        let mr40 = mr >> 13; let er40 = er + 13;
        assert!(le_scaled(10000, mr40, er40, 11450, mx, ex), "P: sqrt above 1.07 * root");
        assert!(!le_scaled(10000, mr40 + 1, er40, 8648, mx, ex), "P: sqrt below 0.93 * root");
    }
    #[kani::proof]
    pub fn c11_sqrt_f64_nostd_tiny() {
        let x: f64 = kani::any();
        kani::assume(x >= 0.0 && x.is_sign_positive() && x < f64::MIN_POSITIVE);
        let r = x.sample_sqrt();
        assert!(r >= 0.0 && r <= 1e-18);
        let n: f64 = kani::any();
        kani::assume(n < 0.0);
        assert!(n.sample_sqrt().is_nan());
    }
}
