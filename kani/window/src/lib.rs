//! Unit window (C20): the Windower chunk schedule and size hint.
//! * loop-free harnesses over FULLY symbolic (L, bin, hop): a slice of the zero-sized frame `[f32; 0]` may
//!   have any length, so `next()`'s slice arithmetic and `size_hint()` are checked for every usize value;
//! * bounded harnesses (L <= 6, f64 mono frames) run the iterator to the end.
#![allow(unused)]

/// closed form of the number of chunks: floor((L - b) / h) + 1 when L >= b, none otherwise (h >= 1)
pub fn count(l: usize, b: usize, h: usize) -> usize { if l >= b { (l - b) / h + 1 } else { 0 } }

#[cfg(kani)]
pub mod proofs {
    use super::*;
    use dasp_signal::window::Windower;
    use dasp_signal::Signal;
    use dasp_frame::Frame;
    use dasp_window::Rectangle;

    type Z = [f32; 0];

    fn zst_slice(len: usize) -> &'static [Z] {
        unsafe { core::slice::from_raw_parts(core::ptr::NonNull::<Z>::dangling().as_ptr(), len) }
    }

    /// next(): Some iff bin <= L; the remaining frames are L - hop (or none when hop >= L)
    #[kani::proof]
    pub fn c20_windower_next_arith() {
        let l: usize = kani::any(); let bin: usize = kani::any(); let hop: usize = kani::any();
        kani::assume(bin >= 2 && hop >= 1);
        let mut w: Windower<Z, Rectangle> = Windower::new(zst_slice(l), bin, hop);
        let r = w.next();
        assert!(r.is_some() == (bin <= l));
        if bin <= l { assert!(w.frames.len() == if hop < l { l - hop } else { 0 }); }
        else { assert!(w.frames.len() == l); }
        assert!(w.bin == bin && w.hop == hop);
        kani::cover!(bin <= l && hop < l, "chunk yielded with frames remaining");
    }

    /// a probe window function that COUNTS its evaluations: the t-th evaluation returns t + 1.5, whatever the phase.
    /// (Under Kani the wrapped phase is always 0 — CBMC evaluates f64 `%` to 0.0 — so a phase-based probe could not tell
    ///  positions apart; what Windowed::next must do is evaluate the window exactly once per frame, in order, and multiply;
    ///  that each evaluation is at the right phase is Window::next's contract, verified by Verus in unit osc.)
    pub struct Probe;
    static mut EVALS: u32 = 0;
    impl dasp_window::Window<f64> for Probe {
        type Output = f64;
        fn window(_phase: f64) -> f64 { unsafe { let t = EVALS; EVALS += 1; t as f64 + 1.5 } }
    }

    // (Window::new / Window::next — the phases i/(n-1) — are verified by Verus in unit osc)

    /// chunk data path for concrete shapes and symbolic contents (exact silence included): chunk k holds frames
    /// k*h .. k*h+b-1, the j-th frame pulled from a chunk is multiplied by the j-th window evaluation of that chunk (one
    /// evaluation per frame, none skipped or repeated); exactly count(L, b, h) chunks
    fn chunk_path<const L: usize>(bin: usize, hop: usize) {
        let data: [[f64; 1]; L] = core::array::from_fn(|_| { let x: f64 = kani::any(); kani::assume(x.is_finite() && x.abs() <= 1.0); [x] });
        let mut w: Windower<[f64; 1], Probe> = Windower::new(&data[..], bin, hop);
        let want = count(L, bin, hop);
        let mut k = 0usize;
        unsafe { EVALS = 0; }
        while let Some(mut chunk) = w.next() {
            assert!(k < want, "P: more chunks than floor((L-b)/h)+1");
            let base = unsafe { EVALS };
            let mut j = 0usize;
            while j < bin {
                let f = chunk.next();
                assert!(f.is_some());
                let g = (base + j as u32) as f64 + 1.5;
                assert!(f.unwrap()[0].to_bits() == (data[k * hop + j][0] * g).to_bits(), "P: frame k*h+j scaled by the window value of position j (one window evaluation per frame, in order)");
                j += 1;
            }
            assert!(unsafe { EVALS } == base + bin as u32, "P: exactly one window evaluation per frame");
            k += 1;
        }
        assert!(k == want, "P: fewer chunks than floor((L-b)/h)+1");
        kani::cover!(L >= 2 && data[0][0] == 0.0 && data[1][0] != 0.0, "a silent frame followed by a non-silent one");
    }
    #[kani::proof] #[kani::unwind(8)] pub fn c20_chunk_path_l4_b3_h1() { chunk_path::<4>(3, 1) }
    #[kani::proof] #[kani::unwind(8)] pub fn c20_chunk_path_l5_b5_h2() { chunk_path::<5>(5, 2) }
    #[kani::proof] #[kani::unwind(8)] pub fn c20_chunk_path_l6_b2_h3() { chunk_path::<6>(2, 3) }
    #[kani::proof] #[kani::unwind(8)] pub fn c20_chunk_path_l3_b4_h1() { chunk_path::<3>(4, 1) }

    // (the closed-form/recurrence identity and size_hint are proved by the Verus unit `window`: 64-bit symbolic
    //  division does not terminate in CBMC)

    /// bounded: run the windower over L <= 6 f64 frames: exactly count(L, b, h) chunks; chunk k's first b frames
    /// are frames[k*h + j] scaled by the (rectangle) window value; every later frame of the chunk is equilibrium
    fn run_chunks<const L: usize>() {
        let data: [[f64; 1]; L] = core::array::from_fn(|_| { let x: f64 = kani::any(); kani::assume(x.is_finite()); [x] });
        let bin: usize = kani::any(); let hop: usize = kani::any();
        kani::assume(bin >= 2 && bin <= L + 1 && hop >= 1 && hop <= L + 1);
        let mut w: Windower<[f64; 1], Rectangle> = Windower::new(&data[..], bin, hop);
        let want = count(L, bin, hop);
        let mut k = 0usize;
        while let Some(mut chunk) = w.next() {
            assert!(k < want);
            let mut j = 0usize;
            while j < bin {
                let f = chunk.next();
                assert!(f.is_some());
                let e = data[k * hop + j].mul_amp([1.0f64]);
                assert!(f.unwrap()[0].to_bits() == e[0].to_bits());
                j += 1;
            }
            k += 1;
        }
        assert!(k == want);
    }
    #[kani::proof] #[kani::unwind(8)] pub fn c20_t_chunks_l2() { run_chunks::<2>() }
    #[kani::proof] #[kani::unwind(8)] pub fn c20_t_chunks_l3() { run_chunks::<3>() }
    #[kani::proof] #[kani::unwind(8)] pub fn c20_t_chunks_l4() { run_chunks::<4>() }
    }
