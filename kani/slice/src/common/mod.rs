pub mod spec;
