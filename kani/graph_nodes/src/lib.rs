//! Unit graph_nodes (C16), BOUNDED shapes: the stock nodes' `process` called directly on buffers the harness
//! owns (hook Input::verif_new, cfg rustaudio_dasp_verif).  NOTE (T7): dasp_graph links the crates.io 0.11.0
//! copies of dasp_slice / dasp_ring_buffer / dasp_signal / dasp_frame, not the workspace ones.
#![allow(unused)]

#[cfg(kani)]
pub mod proofs {
    use dasp_graph::node::{BoxedNode, BoxedNodeSend, Delay, Pass, Sum, SumBuffers};
    use dasp_graph::{Buffer, Input, Node};
    use dasp_ring_buffer as rb;

    const LEN: usize = 64;
    fn same(a: f32, b: f32) -> bool { a.to_bits() == b.to_bits() || (a.is_nan() && b.is_nan()) }
    /// fully symbolic buffer (used where no arithmetic happens)
    fn any_buffer() -> Buffer { let a: [f32; LEN] = kani::any(); Buffer::from(a) }
    /// sparse symbolic buffer: a constant ramp with ONE symbolic finite sample at a symbolic position
    fn sparse_buffer(base: f32) -> Buffer {
        let mut a = [base; LEN];
        let j: usize = kani::any(); kani::assume(j < LEN);
        let v: f32 = kani::any(); kani::assume(v.is_finite());
        a[j] = v;
        Buffer::from(a)
    }
    /// constant ramp with symbolic finite samples at the two FIXED positions 5 and 41 (keeps the number of genuinely
    /// symbolic float additions at two per buffer pair; every other position is checked on concrete values)
    fn fixed_sparse_buffer(base: f32) -> Buffer {
        let mut a = [base; LEN];
        let mut k = 0; while k < LEN { a[k] = base + (k as f32) * 0.5; k += 1; }
        let v: f32 = kani::any(); kani::assume(v.is_finite());
        let w: f32 = kani::any(); kani::assume(w.is_finite());
        a[5] = v; a[41] = w;
        Buffer::from(a)
    }
    fn idx() -> usize { let i: usize = kani::any(); kani::assume(i < LEN); i }

    // ------------------------------------------------------------------ Pass
    /// copies the buffers of the FIRST input onto the corresponding outputs, surplus outputs untouched
    #[kani::proof] #[kani::unwind(66)]
    pub fn c16_pass_1in_1buf_2out() {
        let a = [any_buffer()]; let other = [any_buffer(), any_buffer()];
        let inputs = [Input::verif_new(&a), Input::verif_new(&other)];
        let mut out = [any_buffer(), any_buffer()];
        let before1 = out[1].clone();
        Pass.process(&inputs, &mut out);
        let i = idx();
        assert!(same(out[0][i], a[0][i]));
        assert!(same(out[1][i], before1[i]));     // surplus output untouched
    }
    #[kani::proof] #[kani::unwind(66)]
    pub fn c16_pass_no_input() {
        let inputs: [Input; 0] = [];
        let mut out = [any_buffer()];
        let before = out[0].clone();
        Pass.process(&inputs, &mut out);
        let i = idx();
        assert!(same(out[0][i], before[i]));
    }
    #[kani::proof] #[kani::unwind(66)]
    pub fn c16_pass_2buf_1out() {
        let a = [any_buffer(), any_buffer()];
        let inputs = [Input::verif_new(&a)];
        let mut out = [any_buffer()];
        Pass.process(&inputs, &mut out);
        let i = idx();
        assert!(same(out[0][i], a[0][i]));
    }

    // ------------------------------------------------------------------ Sum
    /// each output channel c is the sample-wise sum of channel c over all inputs that have it
    /// (shapes beyond 1 input x 2 outputs do not finish in CBMC: measured, DESIGN.md)
    #[kani::proof] #[kani::unwind(66)] #[kani::solver(kissat)]
    pub fn c16_sum_1in_1buf_2out() {
        let a = [sparse_buffer(0.25)];
        let inputs = [Input::verif_new(&a)];
        let mut out = [any_buffer(), any_buffer()];
        Sum.process(&inputs, &mut out);
        let i = idx();
        assert!(same(out[0][i], 0.0f32 + a[0][i]));
        assert!(same(out[1][i], 0.0f32));                        // the input has no channel 1: silence
    }
    #[kani::proof] #[kani::unwind(66)] #[kani::solver(kissat)]
    pub fn c16_t_sum_2in_1out() {
        let a = [fixed_sparse_buffer(0.25)];
        let b = [fixed_sparse_buffer(0.125)];
        let inputs = [Input::verif_new(&a), Input::verif_new(&b)];
        let mut out = [any_buffer()];
        Sum.process(&inputs, &mut out);
        let i = idx();
        assert!(same(out[0][i], (0.0f32 + a[0][i]) + b[0][i]));
    }
    /// SumBuffers: every output buffer is the sum of ALL buffers of ALL inputs
    #[kani::proof] #[kani::unwind(66)] #[kani::solver(kissat)]
    pub fn c16_sum_buffers_1in_2buf_1out() {
        let a = [fixed_sparse_buffer(0.25), fixed_sparse_buffer(-0.5)];
        let inputs = [Input::verif_new(&a)];
        let mut out = [any_buffer()];
        SumBuffers.process(&inputs, &mut out);
        let i = idx();
        assert!(same(out[0][i], (0.0f32 + a[0][i]) + a[1][i]));
    }
    #[kani::proof] #[kani::unwind(66)] #[kani::solver(kissat)]
    pub fn c16_t_sum_buffers_1in_2buf_2out() {
        let a = [fixed_sparse_buffer(0.25), fixed_sparse_buffer(-0.5)];
        let inputs = [Input::verif_new(&a)];
        let mut out = [any_buffer(), any_buffer()];
        SumBuffers.process(&inputs, &mut out);
        let i = idx();
        let e = (0.0f32 + a[0][i]) + a[1][i];
        assert!(same(out[0][i], e));
        assert!(same(out[1][i], e));
    }

    // ------------------------------------------------------------------ Delay
    /// delays each channel by the length of that channel's ring buffer, continuously across process calls
    #[kani::proof] #[kani::unwind(66)] #[kani::solver(kissat)]
    pub fn c16_t_delay_2calls() {
        let r0: [f32; 2] = kani::any(); let r1: [f32; 3] = kani::any();
        let mut d = Delay(vec![rb::Fixed::from(vec![r0[0], r0[1]]), rb::Fixed::from(vec![r1[0], r1[1], r1[2]])]);
        let in1 = [any_buffer(), any_buffer()]; let in2 = [any_buffer(), any_buffer()];
        let mut out1 = [any_buffer(), any_buffer()]; let mut out2 = [any_buffer(), any_buffer()];
        d.process(&[Input::verif_new(&in1)], &mut out1);
        d.process(&[Input::verif_new(&in2)], &mut out2);
        let i = idx();
        // channel 0: delay 2; channel 1: delay 3; stream position of sample i of call 2 is 64 + i
        assert!(same(out1[0][i], if i < 2 { r0[i] } else { in1[0][i - 2] }));
        assert!(same(out1[1][i], if i < 3 { r1[i] } else { in1[1][i - 3] }));
        assert!(same(out2[0][i], if i < 2 { in1[0][LEN - 2 + i] } else { in2[0][i - 2] }));
        assert!(same(out2[1][i], if i < 3 { in1[1][LEN - 3 + i] } else { in2[1][i - 3] }));
    }

    #[kani::proof] #[kani::unwind(66)]
    pub fn c16_delay_1call() {
        let r0: [f32; 2] = kani::any();
        let mut d = Delay(vec![rb::Fixed::from(vec![r0[0], r0[1]])]);
        let in1 = [any_buffer()];
        let mut out1 = [any_buffer()];
        d.process(&[Input::verif_new(&in1)], &mut out1);
        let i = idx();
        assert!(same(out1[0][i], if i < 2 { r0[i] } else { in1[0][i - 2] }));
    }

    /// no input at all: the empty sum is silence in EVERY output buffer (Sum and SumBuffers), whatever the buffers held before
    #[kani::proof] #[kani::unwind(66)] #[kani::solver(kissat)]
    pub fn c16_sum_nodes_no_input_2out() {
        let mut out = [any_buffer(), any_buffer()];
        let i = idx();
        SumBuffers.process(&[], &mut out);
        assert!(same(out[0][i], 0.0) && same(out[1][i], 0.0), "P: SumBuffers without inputs writes silence to every output");
        let mut out2 = [any_buffer(), any_buffer()];
        Sum.process(&[], &mut out2);
        assert!(same(out2[0][i], 0.0) && same(out2[1][i], 0.0), "P: Sum without inputs writes silence to every output");
    }

    // ------------------------------------------------------------------ signal node
    /// a signal node writes successive frames de-interleaved, one buffer length per call, min(CHANNELS, outputs) channels
    /// a FINITE ramp: frames n, n+1, .. up to `end`, then exhausted and equilibrium forever
    struct Ramp { n: u32, end: u32 }
    impl dasp_signal::Signal for Ramp {
        type Frame = [f32; 2];
        fn next(&mut self) -> [f32; 2] { let k = self.n; self.n += 1; if k < self.end { [k as f32, -(k as f32)] } else { [0.0, 0.0] } }
        fn is_exhausted(&self) -> bool { self.n >= self.end }
    }
    #[kani::proof] #[kani::unwind(66)] #[kani::solver(kissat)]
    pub fn c16_signal_node() {
        let start: u8 = kani::any();
        let len: u8 = kani::any();                       // the signal may end anywhere inside (or after) the block
        let end = start as u32 + len as u32;
        let mut sig = Ramp { n: start as u32, end };
        let node: &mut dyn dasp_signal::Signal<Frame = [f32; 2]> = &mut sig;
        let mut out = [any_buffer(), any_buffer(), any_buffer()];      // arbitrary (stale) contents on entry
        let before2 = out[2].clone();
        node.process(&[], &mut out);
        let i = idx();
        let k = start as u32 + i as u32;
        // a whole buffer length of successive frames is written on every call: equilibrium once the signal has ended
        assert!(same(out[0][i], if k < end { k as f32 } else { 0.0 }));
        assert!(same(out[1][i], if k < end { -(k as f32) } else { 0.0 }));
        assert!(same(out[2][i], before2[i]));       // surplus output untouched
        assert!(sig.n == start as u32 + 64);        // exactly one buffer length of frames pulled
        kani::cover!(len > 0 && len < 64, "signal ends inside the block");
    }
    #[kani::proof] #[kani::unwind(66)] #[kani::solver(kissat)]
    pub fn c16_t_signal_node_2calls_1out() {
        let start: u8 = kani::any();
        let mut sig = Ramp { n: start as u32, end: u32::MAX };
        let node: &mut dyn dasp_signal::Signal<Frame = [f32; 2]> = &mut sig;
        let mut one = [any_buffer()];
        node.process(&[], &mut one);                // fewer outputs than channels
        node.process(&[], &mut one);
        let i = idx();
        assert!(same(one[0][i], (start as u32 + 64 + i as u32) as f32));   // position carried across calls
    }

    /// every wrapper forwards EVERY call (any number of outputs, including none) to the wrapped node: observed
    /// through a node whose effect is not in its output buffers
    struct Counter { calls: u32, last_inputs: usize, last_outputs: usize }
    impl Node for Counter {
        fn process(&mut self, inputs: &[Input], output: &mut [Buffer]) {
            self.calls += 1; self.last_inputs = inputs.len(); self.last_outputs = output.len();
        }
    }
    static mut FN_CALLS: u32 = 0;
    fn counting_fn(_i: &[Input], _o: &mut [Buffer]) { unsafe { FN_CALLS += 1; } }
    #[kani::proof] #[kani::unwind(6)]
    pub fn c16_wrappers_forward_every_call() {
        let a = [any_buffer()];
        let inputs = [Input::verif_new(&a)];
        let n_out: usize = kani::any();
        kani::assume(n_out <= 1);
        let mut outs = [any_buffer()];
        let out: &mut [Buffer] = &mut outs[..n_out];          // zero or one output buffer
        let mut c = Counter { calls: 0, last_inputs: 9, last_outputs: 9 };
        { let mut r: &mut Counter = &mut c; r.process(&inputs, out); }
        assert!(c.calls == 1 && c.last_inputs == 1 && c.last_outputs == n_out);
        let mut b: Box<Counter> = Box::new(Counter { calls: 0, last_inputs: 9, last_outputs: 9 });
        b.process(&inputs, out);
        assert!(b.calls == 1 && b.last_outputs == n_out);
        // BoxedNode / BoxedNodeSend own the node: observe through a shared counter
        static mut SHARED: u32 = 0;
        struct Shared;
        impl Node for Shared { fn process(&mut self, _i: &[Input], _o: &mut [Buffer]) { unsafe { SHARED += 1; } } }
        let mut bn = BoxedNode::new(Shared); bn.process(&inputs, out);
        assert!(unsafe { SHARED } == 1);
        let mut bs = BoxedNodeSend::new(Shared); bs.process(&inputs, out);
        assert!(unsafe { SHARED } == 2);
        let mut f: fn(&[Input], &mut [Buffer]) = counting_fn; f.process(&inputs, out);
        assert!(unsafe { FN_CALLS } == 1);
    }

    // ------------------------------------------------------------------ wrappers behave like the node they wrap
    fn free_fn(inputs: &[Input], output: &mut [Buffer]) { Pass.process(inputs, output) }
    #[kani::proof] #[kani::unwind(66)]
    pub fn c16_wrappers() {
        let a = [any_buffer()];
        let inputs = [Input::verif_new(&a)];
        let i = idx();
        let mut p = Pass;
        let mut out = [any_buffer()];
        { let mut r: &mut Pass = &mut p; r.process(&inputs, &mut out); }
        assert!(same(out[0][i], a[0][i]));
        let mut out = [any_buffer()];
        let mut b: Box<Pass> = Box::new(Pass); b.process(&inputs, &mut out);
        assert!(same(out[0][i], a[0][i]));
        let mut out = [any_buffer()];
        let mut bn = BoxedNode::new(Pass); bn.process(&inputs, &mut out);
        assert!(same(out[0][i], a[0][i]));
        let mut out = [any_buffer()];
        let mut bs = BoxedNodeSend::new(Pass); bs.process(&inputs, &mut out);
        assert!(same(out[0][i], a[0][i]));
        let mut out = [any_buffer()];
        let mut f: fn(&[Input], &mut [Buffer]) = free_fn; f.process(&inputs, &mut out);
        assert!(same(out[0][i], a[0][i]));
        let mut out = [any_buffer()];
        {
            // `impl Node for dyn FnMut(..)` is for the 'static trait-object type: a non-capturing closure
            let mut clo = |ins: &[Input], outs: &mut [Buffer]| { Pass.process(ins, outs) };
            let d: &mut (dyn FnMut(&[Input], &mut [Buffer]) + 'static) = &mut clo;
            d.process(&inputs, &mut out);
        }
        assert!(same(out[0][i], a[0][i]));
        let mut out = [any_buffer()];
        {
            let clo = |ins: &[Input], outs: &mut [Buffer]| { Pass.process(ins, outs) };
            let d: &mut (dyn Fn(&[Input], &mut [Buffer]) + 'static) = &mut { clo };
            d.process(&inputs, &mut out);
        }
        assert!(same(out[0][i], a[0][i]));
    }
}
