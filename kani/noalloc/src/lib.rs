//! Unit noalloc (C07), BOUNDED: the allocator itself is put under contract.  std::alloc::{alloc, alloc_zeroed,
//! realloc, dealloc} are replaced (#[kani::stub]) by functions whose PRECONDITION is `!STEADY`; each harness
//! constructs its object, sets STEADY, then performs the operation(s) on symbolic inputs: any path that reaches
//! the allocator (allocate, reallocate or free) violates the precondition.  The harness c07_selftest shows that
//! the interception works (a deliberate allocation after STEADY must be flagged).
#![allow(unused)]

#[cfg(kani)]
pub mod proofs {
    use dasp_frame::Frame;
    use dasp_ring_buffer as rb;
    use dasp_sample::Sample;
    use dasp_signal::{self as signal, Signal};
    use std::alloc::{GlobalAlloc, Layout, System};

    static mut STEADY: bool = false;
    fn steady() { unsafe { STEADY = true; } }

    pub unsafe fn c_alloc(l: Layout) -> *mut u8 { assert!(!STEADY, "P: heap allocation in steady state"); System.alloc(l) }
    pub unsafe fn c_alloc_zeroed(l: Layout) -> *mut u8 { assert!(!STEADY, "P: heap allocation in steady state"); System.alloc_zeroed(l) }
    pub unsafe fn c_realloc(p: *mut u8, l: Layout, n: usize) -> *mut u8 { assert!(!STEADY, "P: heap reallocation in steady state"); System.realloc(p, l, n) }
    pub unsafe fn c_dealloc(p: *mut u8, l: Layout) { assert!(!STEADY, "P: heap free in steady state"); System.dealloc(p, l) }

    fn fin32() -> f32 { let x: f32 = kani::any(); kani::assume(x.is_finite() && x.abs() <= 1.0); x }
    fn fin64() -> f64 { let x: f64 = kani::any(); kani::assume(x.is_finite() && x.abs() <= 1.0); x }

    /// the interception works: an allocation after STEADY is reported
    #[kani::proof]
    #[kani::should_panic]
    #[kani::stub(std::alloc::alloc, c_alloc)] #[kani::stub(std::alloc::alloc_zeroed, c_alloc_zeroed)]
    #[kani::stub(std::alloc::realloc, c_realloc)] #[kani::stub(std::alloc::dealloc, c_dealloc)]
    pub fn c07_selftest_detects_alloc() {
        steady();
        let v = vec![1u8, 2, 3];
        kani::cover!(v.len() == 3, "MUST-BE-UNREACHABLE: allocation was not intercepted");
    }
    // NOTE: frees are NOT intercepted: Kani lowers the drop of Box/Vec to `__rust_dealloc` directly, bypassing
    // std::alloc::dealloc (measured: a `drop(Box)` after STEADY is not flagged). Allocation and reallocation are.

    macro_rules! noalloc { ($(#[$m:meta])* fn $name:ident() $body:block) => {
        #[kani::proof]
        #[kani::stub(std::alloc::alloc, c_alloc)] #[kani::stub(std::alloc::alloc_zeroed, c_alloc_zeroed)]
        #[kani::stub(std::alloc::realloc, c_realloc)] #[kani::stub(std::alloc::dealloc, c_dealloc)]
        $(#[$m])*
        pub fn $name() $body
    }; }

    noalloc! { #[kani::unwind(6)] fn c07_sample_frame_ops() {
        steady();
        let s: i16 = kani::any(); let u: u8 = kani::any();
        let a = s.to_sample::<f32>().to_sample::<u8>();
        let b = Sample::mul_amp(u, 0.5);
        let f: [i16; 4] = kani::any();
        let g = f.map(|x: i16| x.to_sample::<f32>()) as [f32; 4];
        let h: [i16; 4] = Frame::scale_amp(f, 0.5);
        let mut n = 0; for c in f.channels() { n += 1; }
        assert!(n == 4);
        let fs: Option<[i16; 4]> = Frame::from_samples(&mut f.iter().cloned());
        assert!(fs.is_some());
    } }

    noalloc! { #[kani::unwind(10)] fn c07_slice_views_and_inplace() {
        let mut data: [i16; 8] = kani::any();
        let other: [[i16; 2]; 4] = kani::any();
        steady();
        {
            let fr: &mut [[i16; 2]] = dasp_slice::to_frame_slice_mut(&mut data[..]).unwrap();
            dasp_slice::map_in_place(fr, |f| [f[1], f[0]]);
            dasp_slice::write(fr, &other[..]);
            dasp_slice::equilibrium(fr);
            let back: &mut [i16] = dasp_slice::to_sample_slice_mut(fr);
            assert!(back.len() == 8);
        }
        let r: Option<&[[i16; 3]]> = dasp_slice::to_frame_slice(&data[..]);
        assert!(r.is_none());
    } }

    noalloc! { #[kani::unwind(8)] fn c07_ring_buffers_on_array_storage() {
        let start: usize = kani::any(); let len: usize = kani::any();
        kani::assume(start < 3 && len <= 3);
        let d: [i32; 3] = kani::any();
        let mut b = rb::Bounded::from_raw_parts(start, len, d);     // ANY valid state: one call from every state covers all histories
        let mut f = rb::Fixed::from_raw_parts(start, d);
        steady();
        let x: i32 = kani::any();
        let _ = b.push(x); let _ = b.pop(); let _ = b.get(1); let _ = b.slices();
        let mut n = 0; for _ in b.iter() { n += 1; } assert!(n <= 3);
        let _ = b.drain().next();
        b.extend([x, x].iter().cloned().filter(|v| *v != 7));        // Extend, iterator with an inexact size_hint
        f.extend([x].iter().cloned());
        let _ = f.push(x); let _ = f.get(5); f.set_first(2); let _ = f.slices();
        let mut n = 0; for _ in f.iter() { n += 1; } assert!(n == 3);
    } }

    // the stock graph nodes, called directly (graph TRAVERSAL sits on petgraph and is not covered): Sum, SumBuffers, Pass and a
    // boxed node process one block each, with two inputs of two buffers and two output buffers, without touching the allocator
    noalloc! { #[kani::unwind(70)] fn c07_stock_graph_nodes() {
        use dasp_graph::{node::{Pass, Sum, SumBuffers}, Buffer, BoxedNode, Input, Node};
        let ia = [Buffer::SILENT, Buffer::SILENT]; let ib = [Buffer::SILENT, Buffer::SILENT];
        let inputs = [Input::verif_new(&ia), Input::verif_new(&ib)];
        let mut out = [Buffer::SILENT, Buffer::SILENT];
        let mut boxed = BoxedNode::new(Sum);
        steady();
        Sum.process(&inputs, &mut out);
        SumBuffers.process(&inputs, &mut out);
        Pass.process(&inputs, &mut out);
        boxed.process(&inputs, &mut out);
        unsafe { STEADY = false; }
    } }

    noalloc! { #[kani::unwind(6)] fn c07_rectifiers_rms_envelope() {
        use dasp_envelope::{Detector, detect::Peak};
        let mut rms = dasp_rms::Rms::new(rb::Fixed::from([[0.0f32; 2]; 3]));
        let mut det = Detector::peak(4.0, 8.0);
        steady();
        let f = [fin32(), fin32()];
        let _ = dasp_peak::full_wave(f);
        let _ = dasp_peak::positive_half_wave(f);
        let r = rms.next(f);
        let _ = rms.current();
        let e: [f32; 2] = det.next(f);
        det.set_attack_frames(2.0);
        let e2: [f32; 2] = det.next(f);
    } }

    noalloc! { #[kani::unwind(8)] fn c07_interpolators_and_converter() {
        use dasp_interpolate::{floor::Floor, linear::Linear, sinc::Sinc, Interpolator};
        let mut fl = Floor::new([0.0f64]);
        let mut li = Linear::new([0.0f64], [0.5]);
        let mut si = Sinc::new(rb::Fixed::from([[0.0f64]; 4]));
        let src = [[0.1f64], [0.2], [0.3], [0.4]];
        let mut conv = signal::from_iter(src.iter().cloned()).scale_hz(Linear::new([0.0f64], [0.1]), 1.5);
        steady();
        let x = [fin64()];
        fl.next_source_frame(x); let _ = fl.interpolate(0.25);
        li.next_source_frame(x); let _ = li.interpolate(0.25);
        si.next_source_frame(x); let _ = si.interpolate(0.5);
        let _ = conv.next(); let _ = conv.next(); let _ = conv.is_exhausted();
    } }

    noalloc! { #[kani::unwind(8)] fn c07_sources_and_adaptors() {
        let seed: u8 = kani::any();
        let frames = [[0.1f64], [0.2], [0.3]];
        let mut stack = signal::noise(seed as u64)
            .map(|x: f64| [x])
            .add_amp(signal::from_iter(frames.iter().cloned()))
            .scale_amp(0.5)
            .offset_amp(0.1)
            .clip_amp(0.9)
            .delay(1)
            .inspect(|_f: &[f64; 1]| {});
        let mut saw = signal::rate(4.0).const_hz(1.0).saw();
        let mut sq = signal::rate(4.0).const_hz(1.0).square();
        let mut eq = signal::equilibrium::<[f32; 2]>();
        let mut gm = signal::gen(|| [0.5f64]);
        steady();
        let _ = stack.next(); let _ = stack.next(); let _ = stack.is_exhausted();
        let _ = saw.next(); let _ = sq.next(); let _ = eq.next(); let _ = gm.next();
        let mut it = stack.by_ref().take(1);
        let _ = it.next();
    } }

    noalloc! { #[kani::unwind(8)] fn c07_fork_by_ref_and_buffered() {
        let frames = [[1i16], [2], [3], [4], [5]];
        let mut fork = signal::from_iter(frames.iter().cloned()).fork(rb::Bounded::from([[0i16; 1]; 2]));
        let mut buf = signal::from_iter(frames.iter().cloned()).buffered(rb::Bounded::from([[0i16; 1]; 2]));
        steady();
        {
            let (mut a, mut b) = fork.by_ref();
            let _ = a.next(); let _ = a.next(); let _ = b.next(); let _ = b.pending_frames();
        }
        let _ = buf.next(); let _ = buf.next(); let _ = buf.next();
        let mut n = 0; for _ in buf.next_frames() { n += 1; } assert!(n <= 2);
    } }

    noalloc! { #[kani::unwind(8)] fn c07_window_and_windower() {
        use dasp_signal::window::{Window, Windower};
        use dasp_window::Rectangle;
        let data = [[0.1f64], [0.2], [0.3], [0.4]];
        let mut w: Window<[f64; 1], Rectangle> = Window::new(3);
        let mut wr: Windower<[f64; 1], Rectangle> = Windower::new(&data[..], 2, 1);
        steady();
        let _ = w.next();
        let mut chunk = wr.next().unwrap();
        let _ = chunk.next(); let _ = chunk.next();
        let _ = wr.size_hint();
    } }
}
